#!/usr/bin/env python3
"""Attack generation from WEAKENED variants of the specification (DESIGN 3.4).

DbftNode.tla names every guard of the code that a property leans on (Weaken = set of guards switched off). For each guard
TLC searches the weakened model (open single-node composition MC_Node, breadth-first; closed composition MC_Net, random
simulation) for a behaviour that violates a model-level property; the schedule of that behaviour is an ATTACK: a concrete
sequence of API calls that breaks the property on any implementation lacking the guard. The attacks are stored in
generated/attacks.json (they depend on the specification only) and every trace-based check executes all of them on the real
code: on the unchanged tree they fail (the guard is there, no formula fails); on a tree where a change removed or bypassed the
guard the property's formula fails on the real trace.   usage: tools_attacks.py [node|net|skel|all]"""
import json, os, sys, shutil, time
from concurrent.futures import ThreadPoolExecutor
sys.path.insert(0, os.path.dirname(os.path.abspath(__file__)))
import vlib, mc

PROPS = ('CommitLock', 'PreCertificate')
NEXT_PROPS = ('CommitLock', 'PreCertificate', 'ResetClean', 'EarlyUsed')
INV_ALL = mc.NODE_INVS + ['Certificate']

def cfgs_for(w):
    """Configurations to try for one weakening (the ones where the guard matters), cheapest first."""
    c = lambda name, **kw: mc.node_cfg('atk-%s-%s' % (w, name), weaken=(w,), dev=False, invs=INV_ALL, **kw)
    base = {'backup-v0': dict(me=1, maxview=0), 'primary-v0': dict(me=2, maxview=0),
            'junk-v0': dict(me=1, maxview=0, family=('core', 'junk1')), 'watch': dict(me=2, watch=True, maxview=0),
            'amev-v0': dict(me=1, amev=True, maxview=0), 'amev-junk-v0': dict(me=1, amev=True, maxview=0, family=('core', 'junk1')),
            'amev-primary-v0': dict(me=2, amev=True, maxview=0),
            'next1-v0': dict(me=1, maxview=0, family=('core', 'next1'), props=NEXT_PROPS),
            'tx-v0': dict(me=1, maxview=0, family=('core', 'tx')), 'txapp-v0': dict(me=1, maxview=0, family=('core', 'tx', 'app')),
            'dyn-v0': dict(me=2, maxview=0, dyn=True), 'rec-v0': dict(me=1, maxview=0, family=('core', 'recovery')),
            'backup-v1': dict(me=1, maxview=1), 'primary-v1': dict(me=2, maxview=1), 'equiv-v0': dict(me=1, maxview=0, family=('core', 'equiv')),
            'equiv-v1': dict(me=1, maxview=1, family=('core', 'equiv')), 'amev-v1': dict(me=1, amev=True, maxview=1)}
    want = {
        'no_sig_check_commit': ['junk-v0', 'amev-junk-v0'], 'no_resp_hash_check': ['equiv-v0', 'junk-v0'],
        'resend_builds_new_commit': ['backup-v0', 'rec-v0', 'backup-v1'], 'no_view_filter_commit': ['backup-v1', 'primary-v1'],
        'commit_M_minus_1': ['backup-v0', 'primary-v0'], 'precommits_unverified_at_count': ['amev-junk-v0'],
        'preblock_twice': ['amev-v0', 'amev-v1'], 'no_view_filter_prepare': ['backup-v1', 'primary-v1'],
        'prepare_M_minus_1': ['backup-v0', 'primary-v0'], 'no_precommit_before_commit': ['amev-v0', 'amev-primary-v0'],
        'header_before_preblock': ['amev-v0', 'amev-junk-v0'], 'reset_keeps_commits': ['next1-v0'], 'no_rearm_init': ['backup-v0', 'backup-v1'],
        'cv_M_minus_1': ['backup-v1'], 'no_rearm_cv': ['backup-v0', 'backup-v1'], 'respond_without_verify': ['txapp-v0'],
        'no_primary_check': ['junk-v0', 'equiv-v0'], 'respond_without_txs': ['tx-v0'], 'no_commit_lock_cv': ['backup-v1', 'primary-v1', 'amev-v1'],
        'no_commit_lock_recovery': ['rec-v0', 'backup-v1'], 'no_blocksent_gate': ['backup-v0', 'backup-v1', 'rec-v0'],
        'primary_keeps_early': ['primary-v0', 'junk-v0'], 'no_commit_lock_timeout': ['backup-v0', 'backup-v1'], 'no_rearm_locked': ['backup-v0'],
        'start_ignores_watchonly': ['watch'], 'no_future_cache': ['next1-v0'], 'no_answer_after_rerequest': ['tx-v0'],
        'F_is_N_div_3': [], 'primary_h_plus_v': ['backup-v0', 'backup-v1'],
    }
    return [c(nm, **base[nm]) for nm in want.get(w, ['backup-v0', 'primary-v0'])]

NODE_WEAKENINGS = ['no_sig_check_commit', 'no_resp_hash_check', 'resend_builds_new_commit', 'no_view_filter_commit', 'commit_M_minus_1',
                   'precommits_unverified_at_count', 'preblock_twice', 'no_view_filter_prepare', 'prepare_M_minus_1',
                   'no_precommit_before_commit', 'header_before_preblock', 'reset_keeps_commits', 'no_rearm_init', 'cv_M_minus_1',
                   'no_rearm_cv', 'respond_without_verify', 'no_primary_check', 'respond_without_txs', 'no_commit_lock_cv',
                   'no_commit_lock_recovery', 'no_blocksent_gate', 'primary_keeps_early', 'no_commit_lock_timeout', 'no_rearm_locked',
                   'start_ignores_watchonly', 'no_future_cache', 'no_answer_after_rerequest', 'F_is_N_div_3', 'primary_h_plus_v']

def node_attacks(wd, per_weakening=2, cap=150):
    out = []
    def one(w):
        found, seen_inv = [], set()
        for it in cfgs_for(w):
            if len(found) >= per_weakening:
                break
            try:
                r = mc.run_tlc(it, wd, workers=3, cap=cap)
            except vlib.Infra as e:
                print('node', w, it['name'], 'TLC error (skipped):', str(e)[-300:].replace('\n', ' '), flush=True)
                continue
            if r.get('violated') and r.get('schedule') and r['violated'] not in seen_inv:
                seen_inv.add(r['violated'])
                found.append({'weaken': w, 'config': it['name'], 'module': 'MC_Node', 'invariant': r['violated'],
                              'property': mc.INV_PROP.get(r['violated'], '?'), 'events': len(r['schedule']), 'schedule': r['schedule']})
        print('node', w, [(f['config'], f['invariant']) for f in found], flush=True)
        return found
    with ThreadPoolExecutor(max_workers=4) as ex:
        for f in ex.map(one, NODE_WEAKENINGS):
            out += f
    return out

NET_WEAKENINGS = [('commit_M_minus_1', (2,)), ('prepare_M_minus_1', (2,)), ('cv_M_minus_1', (2,)), ('no_commit_lock_cv', (2,)), ('no_commit_lock_cv', (3,)),
                  ('no_commit_lock_recovery', (2,)), ('no_commit_lock_timeout', (2,)), ('no_view_filter_commit', (2,)), ('no_sig_check_commit', (2,)),
                  ('no_resp_hash_check', (2,)), ('resend_builds_new_commit', (2,)), ('no_view_filter_prepare', (2,)), ('no_primary_check', (3,)),
                  ('reset_keeps_commits', (2,))]

def net_attacks(wd, num=300000, cap=420):
    def one(x):
        w, byz = x
        res = []
        for invs in (('Agreement',), ('Certificates',)):
            it = mc.net_cfg('atk-net-%s-b%s-%s' % (w, ''.join(map(str, byz)), invs[0]), byz=byz, dev=False, weaken=(w,), invs=invs, maxview=1)
            try:
                r = mc.run_tlc(it, wd, workers=2, cap=cap, simulate=dict(num=num, depth=45, seed=7, dump=True))
            except vlib.Infra as e:
                print('net', w, 'TLC error (skipped):', str(e)[-300:].replace('\n', ' '), flush=True)
                continue
            if r.get('violated') and r.get('schedule'):
                res.append({'weaken': w, 'config': it['name'], 'module': 'MC_Net', 'invariant': r['violated'],
                            'property': 'C01' if r['violated'] == 'Agreement' else 'C02', 'events': len(r['schedule']), 'schedule': r['schedule']})
        print('net', w, byz, [(f['invariant'], f['events']) for f in res], flush=True)
        return res
    out = []
    with ThreadPoolExecutor(max_workers=6) as ex:
        for f in ex.map(one, NET_WEAKENINGS):
            out += f
    return out

# Attack SKELETONS (spec/MC_Net.tla, constant Skel): hand-designed abstract step sequences - who starts, whose timer fires, who is
# given which kind of payload from whom - for forks that random simulation of the weakened closed model does not find (they are
# 20 - 30 steps deep and need two cooperating weakenings).  TLC turns a skeleton into a concrete schedule on the WEAKENED model
# (it must end in a fork) and confirms that the faithful model cannot follow it to a fork.  N = 4, H = 2: primary of view 0 is
# validator 2, of view 1 validator 1; validator 3 is Byzantine; validator 0 is the one that signs twice.
SK_HEAD = [(0, 'Start'), (1, 'Start'), (2, 'Start'),
           (1, 'TO'), (0, 'RecoveryRequest', 1, 0),                      # 0 has heard 1 (so that its own timeout asks for a view change, not for recovery)
           (0, 'PrepareResponse', 3, 0, 0), (0, 'TO'), (0, 'PrepareRequest', 2, 0),   # 0 asks for view 1, THEN gets the proposal: responds and commits in view 0 while view-changing
           (2, 'PrepareResponse', 0, 0), (2, 'PrepareResponse', 3, 0, 0), (2, 'Commit', 0, 0), (2, 'Commit', 3, 0, 0),   # 2 accepts X
           (1, 'ChangeView', 0, 0), (1, 'ChangeView', 3, 0), (1, 'TO'), (1, 'TO')]    # 1 enters view 1 on the requests of 0, 3 and its own, proposes Y
SK_TAIL = [(1, 'PrepareResponse', 0, 1), (1, 'PrepareResponse', 3, 1, 0), (1, 'Commit', 0, 1), (1, 'Commit', 3, 1, 0)]   # 1 accepts Y
SKELETONS = [
    # the committed node follows the view change it had asked for before committing, and signs again in the new view
    dict(name='lock-cv-viewchanging', byz=(3,), amev=False, weaken=('no_commit_lock_cv', 'resend_builds_new_commit'),
         skel=SK_HEAD + [(0, 'ChangeView', 1, 0), (0, 'ChangeView', 3, 0), (0, 'PrepareResponse', 3, 1, 0), (0, 'PrepareRequest', 1, 1)] + SK_TAIL),
]

def skeleton_attacks(wd):
    out = []
    for sk in SKELETONS:
        res = {}
        for tag, weaken in (('weakened', sk['weaken']), ('faithful', ())):
            it = mc.net_cfg('skel-%s-%s' % (sk['name'], tag), byz=sk['byz'], dev=False, amev=sk['amev'], weaken=weaken, invs=('Agreement',), maxview=1, maxsteps=90, skel=sk['skel'])
            res[tag] = mc.run_tlc(it, wd, workers=2, cap=300)
        w, f = res['weakened'], res['faithful']
        ok = w.get('violated') == 'Agreement' and w.get('schedule') and not f.get('violated')
        print('skeleton', sk['name'], 'weakened:', w.get('violated'), len(w.get('schedule') or []), 'events; faithful model follows it for', f.get('distinct', 0) - 1, 'of', len(sk['skel']), 'steps, fork:', f.get('violated'), flush=True)
        if ok:
            out.append({'weaken': '+'.join(sk['weaken']), 'config': 'skeleton ' + sk['name'], 'module': 'MC_Net', 'invariant': 'Agreement', 'property': 'C01',
                        'events': len(w['schedule']), 'schedule': w['schedule'], 'skeleton': sk['skel'], 'faithful_model_follows_steps': f.get('distinct', 0) - 1})
    return out

if __name__ == '__main__':
    what = sys.argv[1] if len(sys.argv) > 1 else 'all'
    wd = vlib.workdir('attacks')
    path = os.path.join(vlib.VERIF, 'generated', 'attacks.json')
    old = json.load(open(path)) if os.path.exists(path) else []
    try:
        new = []
        if what in ('node', 'all'):
            new += node_attacks(wd)
            old = [a for a in old if a['module'] != 'MC_Node']
        if what in ('net', 'all'):
            new += net_attacks(wd)
            old = [a for a in old if a['module'] != 'MC_Net' or a.get('skeleton')]
        if what in ('skel', 'net', 'all'):
            new += skeleton_attacks(wd)
            old = [a for a in old if not a.get('skeleton')]
        os.makedirs(os.path.dirname(path), exist_ok=True)
        json.dump(old + new, open(path, 'w'))
        print('attacks stored:', len(old + new))
    finally:
        shutil.rmtree(wd, ignore_errors=True)
