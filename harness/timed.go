package main

// Virtual-time cluster: real nodes, message delays, timers, application that
// calls Reset after each accepted block. Used by the drivers
//   sync   (C08/C16: fault-free synchronous runs, any delivery order, duplicates,
//           late Reset so that next-height traffic arrives early, dynamic block time)
//   faults (C09: silent validators, partitions that heal, amnesia restarts).

import (
	"fmt"
	mrand "math/rand"
	"sort"

	"github.com/nspcc-dev/dbft"
)

type delivery struct {
	at  int64
	to  int
	p   *Payload
	seq int
	tx  Tx // non-empty: not a payload but a transaction the node asked for (RequestTx), supplied through OnTransaction
}

type timedRun struct {
	syncObserver bool   // ledger synchronisation for the observer (node 100) only: it follows the chain even when it missed a round
	observerUntil uint32 // ... while it is an observer: blocks below this height
	txMiss      bool // a validator's pool may lack transactions of the proposal: it asks for them (RequestTx) and gets them a little later
	c           *Cluster
	rng         *mrand.Rand
	q           []delivery
	seq         int
	tpb         int64
	delayMax    int64
	dupPct      int
	resetDelay  int64         // max delay between ProcessBlock and Reset (never for the next primary)
	resetAt     map[int]int64 // node id -> instant at which the application calls Reset
	fired       map[int]bool  // node id -> the armed timer already expired
	lastArm     map[int]int64 // node id -> Due of the timer that fired
	cut         map[int]bool  // nodes currently cut off from everybody
	down        map[int]bool  // silent validators (never started)
	vals        []int
	h0          uint32
	target      uint32
	ledgerSync  bool
	dyn         bool
	txOff       map[uint32]int64 // height -> offset after the previous proposal at which a transaction shows up (-1: never)
	txEv        []txEvent
	propSeen    map[uint32]bool
	nextSync    int64
	victim      int // node whose inbound traffic is spread over victimDelay (any order within a round), -1: none
	victimDelay int64
}

type txEvent struct {
	at int64
	h  uint32
}

type RunEnd struct {
	Call    string  `json:"call"` // "RunEnd"
	Run     int     `json:"run"`
	Now     int64   `json:"now"`
	Target  uint32  `json:"target"`
	Heights [][]int `json:"heights"` // [node id, ledger height]
	Live    []int   `json:"live"`    // validators expected to make progress
}

func (t *timedRun) send(from *Node, p *Payload) {
	if t.cut[from.ID] {
		return
	}
	for _, m := range t.c.Nodes {
		if m.ID == from.ID || t.cut[m.ID] || t.down[m.ID] {
			continue
		}
		k := 1
		if t.rng.Intn(100) < t.dupPct {
			k = 2
		}
		for i := 0; i < k; i++ {
			d := int64(0)
			if t.delayMax > 0 {
				d = t.rng.Int63n(t.delayMax + 1)
			}
			if m.ID == t.victim && t.victimDelay > 0 {
				d = t.rng.Int63n(t.victimDelay + 1)
			}
			t.seq++
			t.q = append(t.q, delivery{at: t.c.Clk.Now + d, to: m.ID, p: p.clone(), seq: t.rng.Int()})
		}
	}
}

func (t *timedRun) setupPool(n *Node) {
	h := n.Height + 1
	n.Pool = nil
	n.Known = map[H]Tx{}
	for k := 0; k < 2; k++ {
		tx := Tx(fmt.Sprintf("t%d.%d", h, k))
		n.Known[tx.Hash()] = tx
	}
	if !t.dyn {
		// every node offers the same transactions: nobody misses one in a fault-free run
		r := mrand.New(mrand.NewSource(int64(h) * 31))
		for k := 0; k < r.Intn(3); k++ {
			n.Pool = append(n.Pool, Tx(fmt.Sprintf("t%d.%d", h, k)))
		}
		if t.txMiss && int(h)%len(t.vals) != indexOf(t.vals, n.ID) && t.rng.Intn(2) == 0 {
			// ... but a backup need not have heard of every transaction yet (no fault: it fetches what the proposal names)
			n.Pool = nil
			for k := 0; k < 2; k++ {
				if t.rng.Intn(2) == 0 {
					delete(n.Known, Tx(fmt.Sprintf("t%d.%d", h, k)).Hash())
				}
			}
		}
	}
}

// after handles what the application does once an API call returned.
func (t *timedRun) after(n *Node, l *Line) {
	t.c.Emit(l)
	for _, cb := range l.Cb {
		if cb.K == "TimerReset" {
			t.fired[n.ID] = false
		}
		if cb.K == "RequestTx" && t.txMiss { // the application fetches the transactions from its peers: they arrive a little later
			for _, hx := range cb.Hashes {
				for k := 0; k < 2; k++ {
					tx := Tx(fmt.Sprintf("t%d.%d", n.Height+1, k))
					if string(tx.Hash()) == hx {
						d := int64(t.rng.Intn(30))
						if t.delayMax > 0 {
							d = t.rng.Int63n(t.delayMax + 1)
						}
						t.q = append(t.q, delivery{at: t.c.Clk.Now + d, to: n.ID, tx: tx, seq: t.rng.Int()})
					}
				}
			}
		}
		if cb.K == "Broadcast" && cb.M.T == "PrepareRequest" && t.dyn && !t.propSeen[cb.M.H] {
			t.propSeen[cb.M.H] = true
			if off, ok := t.txOff[cb.M.H+1]; ok && off >= 0 {
				t.txEv = append(t.txEv, txEvent{at: t.c.Clk.Now + off, h: cb.M.H + 1})
			}
		}
	}
	if acc := n.Accepted[n.Height+1]; len(acc) > 0 {
		if _, pending := t.resetAt[n.ID]; !pending {
			d := int64(0)
			nextPrimary := t.vals[int(n.Height+2)%len(t.vals)]
			if t.resetDelay > 0 && n.ID != nextPrimary {
				d = t.rng.Int63n(t.resetDelay + 1)
			}
			t.resetAt[n.ID] = t.c.Clk.Now + d
		}
	}
}

func (t *timedRun) doReset(n *Node) {
	delete(t.resetAt, n.ID)
	b := n.Accepted[n.Height+1][0]
	n.AdvanceLedger(b)
	t.setupPool(n)
	if t.dyn {
		for _, e := range t.txEv { // transactions that showed up while the node was finishing the height
			if e.h == n.Height+1 && e.at <= t.c.Clk.Now {
				tx := Tx(fmt.Sprintf("t%d.0", e.h))
				n.Pool = []Tx{tx}
			}
		}
	}
	t.after(n, n.Reset())
}

// loop runs until every live validator reached the target height or tmax.
func (t *timedRun) loop(tmax int64, live func() []*Node, hook func()) bool {
	return t.loopStop(tmax, live, hook, nil)
}

func (t *timedRun) loopStop(tmax int64, live func() []*Node, hook func(), stop func() bool) bool {
	c := t.c
	for iter := 0; iter < 200000; iter++ {
		if hook != nil {
			hook()
		}
		if stop != nil && stop() {
			return true
		}
		done := stop == nil
		for _, n := range live() {
			if n.Height < t.target {
				done = false
			}
		}
		if done {
			return true
		}
		// next instants
		const inf = int64(1) << 62
		nd, nt, nr, nx, ns := inf, inf, inf, inf, inf
		for _, d := range t.q {
			if d.at < nd {
				nd = d.at
			}
		}
		for _, n := range c.Nodes {
			if n.started && n.Timer.Armed && !t.fired[n.ID] && !t.down[n.ID] && n.Timer.Due < nt {
				nt = n.Timer.Due
			}
		}
		for _, at := range t.resetAt {
			if at < nr {
				nr = at
			}
		}
		for _, e := range t.txEv {
			if e.at >= 0 && e.at < nx {
				nx = e.at
			}
		}
		if t.ledgerSync {
			ns = t.nextSync
		}
		T := min(nd, nt, nr, nx, ns)
		if T == inf || T > tmax {
			return false
		}
		if T > c.Clk.Now {
			c.Clk.Now = T
		}
		now := c.Clk.Now
		switch {
		case nr <= now: // application calls Reset
			ids := []int{}
			for id, at := range t.resetAt {
				if at <= now {
					ids = append(ids, id)
				}
			}
			sort.Ints(ids)
			t.doReset(c.byID[ids[t.rng.Intn(len(ids))]])
		case nx <= now: // a transaction enters every pool
			for i := range t.txEv {
				if t.txEv[i].at >= 0 && t.txEv[i].at <= now {
					e := t.txEv[i]
					t.txEv[i].at = -1 - e.at // consumed, keep the instant for late Resets
					tx := Tx(fmt.Sprintf("t%d.0", e.h))
					for _, n := range c.Nodes {
						if n.started && n.Height+1 == e.h {
							n.Pool = []Tx{tx}
							n.Known[tx.Hash()] = tx
						}
					}
					for _, n := range c.Nodes {
						if n.started && !t.cut[n.ID] {
							t.after(n, n.NewTransaction())
						}
					}
					break
				}
			}
		case nd <= now: // deliveries go before timer expiries of the same instant
			var idx []int
			for i, d := range t.q {
				if d.at <= now {
					idx = append(idx, i)
				}
			}
			i := idx[t.rng.Intn(len(idx))]
			d := t.q[i]
			t.q = append(t.q[:i], t.q[i+1:]...)
			n := c.byID[d.to]
			if d.tx != "" {
				if n.started {
					n.Known[d.tx.Hash()] = d.tx
					t.after(n, n.Transaction(d.tx))
				}
			} else if n.started && !t.cut[n.ID] {
				t.after(n, n.Receive(d.p))
			}
		case ns <= now:
			t.nextSync = now + t.tpb/2
			if t.syncObserver {
				t.nextSync = now + t.tpb/8
			}
			t.syncLedgers()
		default: // timer
			var due []*Node
			for _, n := range c.Nodes {
				if n.started && n.Timer.Armed && !t.fired[n.ID] && !t.down[n.ID] && n.Timer.Due <= now {
					due = append(due, n)
				}
			}
			n := due[t.rng.Intn(len(due))]
			t.fired[n.ID] = true
			t.after(n, n.Timeout(n.Timer.H, n.Timer.V))
		}
	}
	return false
}

// syncLedgers: a node whose ledger is behind a reachable peer takes the next block from it.
func (t *timedRun) syncLedgers() {
	c := t.c
	for _, n := range c.Nodes {
		if !n.started || t.cut[n.ID] || (t.syncObserver && n.ID != 100) {
			continue
		}
		if _, pending := t.resetAt[n.ID]; pending {
			continue
		}
		b := c.Chain[n.Height+1]
		if b == nil || len(n.Accepted[n.Height+1]) > 0 {
			continue
		}
		if t.syncObserver && b.Rec.H >= t.observerUntil {
			continue // from then on it is a validator and decides by itself
		}
		// somebody reachable must have it in its ledger
		ok := false
		for _, m := range c.Nodes {
			if m.ID != n.ID && m.started && !t.cut[m.ID] && m.Height >= b.Rec.H {
				ok = true
			}
		}
		if !ok {
			continue
		}
		n.AdvanceLedger(b)
		t.setupPool(n)
		if t.dyn {
			for _, e := range t.txEv { // transactions that showed up meanwhile
				if e.h == n.Height+1 && (e.at <= t.c.Clk.Now && e.at >= 0 || e.at < 0 && -1-e.at <= t.c.Clk.Now) {
					n.Pool = []Tx{Tx(fmt.Sprintf("t%d.0", e.h))}
				}
			}
		}
		t.after(n, n.Reset())
	}
}

func newTimedRun(out *TraceWriter, seed int64, run int, driver string) (*timedRun, *mrand.Rand) {
	rng := mrand.New(mrand.NewSource(seed*1000003 + int64(run)))
	seedNonces(seed*7 + int64(run))
	c := NewCluster(seed+int64(run), out)
	if run%4 == 2 {
		c.Clk.Origin = FarOrigin // the injected clock lies far beyond the machine's date (traces stay relative to the origin)
	}
	c.Rng = rng
	t := &timedRun{c: c, rng: rng, tpb: 1000, resetAt: map[int]int64{}, fired: map[int]bool{}, lastArm: map[int]int64{},
		cut: map[int]bool{}, down: map[int]bool{}, txOff: map[uint32]int64{}, propSeen: map[uint32]bool{}, victim: -1}
	return t, rng
}

func (t *timedRun) addNodes(cfg NodeCfg, extraWatch bool) {
	c := t.c
	c.Vals = func(h uint32) []int { return t.vals }
	for _, id := range t.vals {
		n := c.AddNode(id, cfg)
		n.Broadcast = t.send
		n.Height = t.h0
		n.TipHash = H(fmt.Sprintf("T:%d", t.h0))
		n.TipTs = uint64(c.Clk.Now) - 500
	}
	if extraWatch {
		n := c.AddNode(100, cfg)
		n.Broadcast = t.send
		n.Height = t.h0
		n.TipHash = H(fmt.Sprintf("T:%d", t.h0))
		n.TipTs = uint64(c.Clk.Now) - 500
	}
}

func (t *timedRun) finish(run int, live []*Node) {
	e := RunEnd{Call: "RunEnd", Run: run, Now: t.c.Clk.Now, Target: t.target, Heights: [][]int{}, Live: []int{}}
	for _, n := range t.c.Nodes {
		e.Heights = append(e.Heights, []int{n.ID, int(n.Height)})
	}
	for _, n := range live {
		e.Live = append(e.Live, n.ID)
	}
	t.c.Out.Write(e)
}

// runSync: fault-free synchronous run.
func runSync(out *TraceWriter, seed int64, run int, heights int, forceDyn bool) {
	t, rng := newTimedRun(out, seed, run, "sync")
	n0 := []int{4, 4, 4, 7, 5, 6, 3, 2, 1, 4, 10}[rng.Intn(11)]
	for i := 0; i < n0; i++ {
		t.vals = append(t.vals, i)
	}
	t.h0 = uint32(1 + rng.Intn(7)) // BlockIndex >= 2: see observation O-10 in DESIGN.md
	t.target = t.h0 + uint32(heights)
	t.delayMax = []int64{0, 0, 100, 250}[rng.Intn(4)]
	t.dupPct = []int{0, 10, 30}[rng.Intn(3)]
	if rng.Intn(2) == 0 {
		t.resetDelay = []int64{300, 900}[rng.Intn(2)]
	}
	cfg := NodeCfg{Tpb: t.tpb, Inc: uint64([]int{1, 7}[rng.Intn(2)]), AmevH: -1}
	switch rng.Intn(4) {
	case 0:
		cfg.AmevH = 0
	case 1:
		cfg.AmevH = int64(t.h0) + 2
	}
	if rng.Intn(100) < 45 || forceDyn {
		cfg.MaxTpb = []int64{3000, 2000, 5000, 1000}[rng.Intn(4)]
		t.dyn = true
		for h := t.h0 + 1; h <= t.target+1; h++ {
			t.txOff[h] = []int64{-1, -1, 300, 500, 1000, 1700, 2500, 2990}[rng.Intn(8)]
		}
	}
	t.txMiss = !t.dyn && rng.Intn(3) == 0
	extraWatch := rng.Intn(100) < 25
	if rng.Intn(100) < 50 && !t.dyn {
		// one node gets the traffic of a round in any order (spread over 0.6 block times; its view-0 timer is 2 block times)
		t.victim = rng.Intn(n0)
		t.victimDelay = 600
		t.resetDelay = 0
	}
	// the validator set may grow: the observer (node 100) joins the list from some height on - at its first height as a validator it
	// has not taken part in the previous round (nothing of "the last block" is known to its consensus context)
	joinAt := uint32(0)
	if extraWatch && rng.Intn(2) == 0 {
		joinAt = t.h0 + 2 + uint32(rng.Intn(2))
		t.resetDelay, t.txMiss, t.victim, t.victimDelay = 0, false, -1, 0
		t.observerUntil = joinAt
		t.ledgerSync, t.syncObserver = true, true // an observer that got the commits before the proposal never accepts the block (O-11): it fetches it
		t.nextSync = t.c.Clk.Now + t.tpb/4
	}
	out.Write(RunStart{Call: "RunStart", Run: run, Seed: seed, Driver: "sync", Sync: true,
		Nodes: append(append([]int{}, t.vals...), map[bool][]int{true: {100}, false: {}}[extraWatch]...), Faulty: []int{},
		Params: map[string]any{"n0": n0, "h0": t.h0, "target": t.target, "delayMax": t.delayMax, "dup": t.dupPct, "resetDelay": t.resetDelay,
			"amevH": cfg.AmevH, "maxTpb": cfg.MaxTpb, "tpb": t.tpb, "inc": cfg.Inc, "dyn": t.dyn, "victim": t.victim, "txMiss": t.txMiss, "joinAt": joinAt}})
	t.addNodes(cfg, extraWatch)
	if joinAt > 0 {
		base := append([]int{}, t.vals...)
		t.c.Vals = func(h uint32) []int {
			if h >= joinAt {
				return append(append([]int{}, base...), 100)
			}
			return base
		}
	}
	for _, n := range t.c.Nodes {
		t.setupPool(n)
		t.after(n, n.Start())
	}
	var validators []*Node
	for _, n := range t.c.Nodes {
		if n.ID != 100 {
			validators = append(validators, n)
		}
	}
	live := func() []*Node { return validators }
	t.loop(t.c.Clk.Now+int64(heights)*12*t.tpb, live, nil)
	t.finish(run, validators)
}

// runFaults: silent validators, partitions that heal, amnesia restarts (in combination), then synchrony.
func runFaults(out *TraceWriter, seed int64, run int, heights int) {
	t, rng := newTimedRun(out, seed, run, "faults")
	n0 := []int{4, 4, 4, 7, 5, 6, 10, 4, 7}[rng.Intn(9)]
	for i := 0; i < n0; i++ {
		t.vals = append(t.vals, i)
	}
	f := fOf(n0)
	t.h0 = uint32(1 + rng.Intn(7))
	t.delayMax = []int64{0, 50, 100}[rng.Intn(3)]
	t.ledgerSync = true
	t.nextSync = t.c.Clk.Now + t.tpb/2
	cfg := NodeCfg{Tpb: t.tpb, Inc: 1, AmevH: -1}
	if rng.Intn(3) == 0 {
		cfg.AmevH = 0
	}
	kind := []string{"silent", "silent", "watch", "mixed", "mixed", "mixed"}[rng.Intn(6)]
	silent := []int{}
	ns := rng.Intn(f + 1)
	if kind != "mixed" && ns == 0 && f > 0 {
		ns = 1
	}
	if ns > 0 {
		if rng.Intn(2) == 0 { // the first primaries of the first height
			for k := 0; k < ns; k++ {
				p := (int(t.h0+1) - k) % n0
				if p < 0 {
					p += n0
				}
				silent = append(silent, p)
			}
		} else {
			for _, p := range rng.Perm(n0)[:ns] {
				silent = append(silent, p)
			}
		}
	}
	t.target = t.h0 + uint32(heights)
	// fault script for "mixed": cuts and restarts, time- or event-triggered, all over by syncAt
	type fev struct {
		kind    string // "cut" | "restart"
		nodes   []int
		at      int64  // time trigger (if trig == "")
		trig    string // payload type whose broadcast by nodes[0] triggers the fault
		dur     int64
		started bool
		healAt  int64
		done    bool
	}
	var script []*fev
	start := t.c.Clk.Now
	if kind == "mixed" {
		restartBudget := f - len(silent) // an amnesia restart is a fault: silent + restarted validators <= F
		for k := 0; k < 1+rng.Intn(2); k++ {
			e := &fev{kind: []string{"cut", "cut", "restart"}[rng.Intn(3)], at: start + rng.Int63n(8*t.tpb)}
			if e.kind == "restart" {
				if restartBudget <= 0 {
					// outside the fault budget only a HARMLESS restart is allowed: the process restarts with empty consensus state
					// at a moment when it has not (pre)committed (forgetting one's own commit would be a Byzantine fault)
					e.kind = []string{"cut", "softrestart"}[rng.Intn(2)]
				} else {
					restartBudget--
				}
			}
			var cand []int
			for _, id := range t.vals {
				if indexOf(silent, id) < 0 {
					cand = append(cand, id)
				}
			}
			if e.kind == "cut" {
				nc := 1
				if rng.Intn(3) == 0 {
					nc = 1 + rng.Intn(len(cand))
				}
				for _, i := range rng.Perm(len(cand))[:nc] {
					e.nodes = append(e.nodes, cand[i])
				}
				e.dur = []int64{500, 2000, 5000, 9000, 20000}[rng.Intn(5)]
			} else {
				e.nodes = []int{cand[rng.Intn(len(cand))]}
			}
			if rng.Intn(2) == 0 {
				e.trig = []string{"Commit", "PreCommit", "PrepareResponse", "PrepareRequest", "ChangeView", "RecoveryRequest"}[rng.Intn(6)]
				e.at = start + 30*t.tpb // fallback if the trigger never happens
			}
			script = append(script, e)
		}
	}
	var desc []map[string]any
	for _, e := range script {
		desc = append(desc, map[string]any{"kind": e.kind, "nodes": e.nodes, "at": e.at, "trig": e.trig, "dur": e.dur})
	}
	if desc == nil {
		desc = []map[string]any{}
	}
	out.Write(RunStart{Call: "RunStart", Run: run, Seed: seed, Driver: "faults", Sync: false, Nodes: t.vals, Faulty: silent,
		Params: map[string]any{"n0": n0, "h0": t.h0, "target": t.target, "kind": kind, "silent": silent, "delayMax": t.delayMax,
			"amevH": cfg.AmevH, "tpb": t.tpb, "nsilent": len(silent), "script": desc}})
	t.addNodes(cfg, false)
	for _, n := range t.c.Nodes {
		if indexOf(silent, n.ID) >= 0 {
			if kind == "watch" { // a watch-only flagged validator behaves as a silent one
				n.Cfg.Watch = true
				n.build()
			} else {
				t.down[n.ID] = true
				continue
			}
		}
		t.setupPool(n)
		t.after(n, n.Start())
	}
	var liveNodes []*Node
	for _, n := range t.c.Nodes {
		if indexOf(silent, n.ID) < 0 {
			liveNodes = append(liveNodes, n)
		}
	}
	live := func() []*Node { return liveNodes }
	if kind != "mixed" {
		t.loop(start+int64(heights)*200*t.tpb, live, nil)
		t.finish(run, liveNodes)
		return
	}
	// event triggers: watch the broadcasts
	t.c.OnLine = func(l *Line) {
		for _, e := range script {
			if e.started || e.trig == "" || l.N != e.nodes[0] {
				continue
			}
			for _, cb := range l.Cb {
				if cb.K == "Broadcast" && cb.M.T == e.trig {
					e.at = t.c.Clk.Now // fire at the next scheduler step: the payload just broadcast is lost with the cut
				}
			}
		}
	}
	allOver := func() bool {
		for _, e := range script {
			if !e.done {
				return false
			}
		}
		return true
	}
	var maxDur int64
	hook := func() {
		now := t.c.Clk.Now
		for _, e := range script {
			if !e.started && now >= e.at {
				e.started = true
				if e.kind == "cut" {
					for _, id := range e.nodes {
						t.cut[id] = true
					}
					var q []delivery // whatever is in flight to them is lost
					for _, d := range t.q {
						if !t.cut[d.to] {
							q = append(q, d)
						}
					}
					t.q = q
					e.healAt = now + e.dur
					if e.dur > maxDur {
						maxDur = e.dur
					}
				} else if v := t.c.byID[e.nodes[0]]; e.kind == "softrestart" && (v.D.CommitSent() || v.D.PreCommitSent()) {
					e.done = true // locked: the restart does not happen
				} else {
					v := t.c.byID[e.nodes[0]]
					delete(t.resetAt, v.ID)
					if acc := v.Accepted[v.Height+1]; len(acc) > 0 {
						v.AdvanceLedger(acc[0])
					}
					t.fired[v.ID] = false
					t.setupPool(v)
					t.after(v, v.Restart())
					e.done = true
				}
			}
			if e.started && !e.done && e.kind == "cut" && now >= e.healAt {
				e.done = true
				for _, id := range e.nodes {
					delete(t.cut, id)
				}
				for _, o := range script { // overlapping cuts keep their nodes cut
					if o != e && o.kind == "cut" && o.started && !o.done {
						for _, id := range o.nodes {
							t.cut[id] = true
						}
					}
				}
			}
		}
	}
	t.target = t.h0 + 100000 // until every fault is over
	t.loopUntil(allOver, start+60*t.tpb, hook)
	for _, e := range script { // make sure everything healed
		e.started, e.done = true, true
	}
	t.cut = map[int]bool{}
	maxH := uint32(0)
	for _, n := range t.c.Nodes {
		if n.Height > maxH {
			maxH = n.Height
		}
	}
	t.target = maxH + 2 // progress is required from here: two more heights for every live validator
	t.loop(t.c.Clk.Now+400*t.tpb+8*maxDur, live, nil)
	t.finish(run, liveNodes)
}

// loopUntil runs the scheduler until cond holds (or time passes tmax).
func (t *timedRun) loopUntil(cond func() bool, tmax int64, hook func()) {
	if !t.loopStop(tmax, func() []*Node { return t.c.Nodes }, hook, cond) {
		if t.c.Clk.Now < tmax {
			t.c.Clk.Now = tmax
		}
		if hook != nil {
			hook()
		}
	}
}

var _ = dbft.CommitType
