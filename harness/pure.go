package main

// Drivers for the pure functions: "quorum" (C06) evaluates the real N/F/M and
// GetPrimaryIndex over the validator-count domain; rows are checked by TLC
// against spec/Quorum.tla.

import (
	"fmt"

	"github.com/nspcc-dev/dbft"
)

type qRow struct {
	K  string `json:"k"` // "pt" single point, "rotv" all views at one height, "roth" N consecutive heights at one view
	N  int    `json:"n"`
	HD []int  `json:"hd"` // height, base-256 digits (most significant first)
	V  int    `json:"v"`
	F  int    `json:"f"`
	M  int    `json:"m"`
	P  int    `json:"p"`
	PS []int  `json:"ps"`
}

func digits(h uint32) []int {
	return []int{int(h >> 24), int(h>>16) & 255, int(h>>8) & 255, int(h) & 255}
}

func runQuorum(out *TraceWriter, full bool, lo, hi int) {
	heights := []uint32{0, 1, 2, 3, 255, 256, 65535, 65536, 65537, 1<<31 - 1, 1 << 31, 1<<31 + 1, 1<<32 - 2, 1<<32 - 1}
	views := []byte{0, 1, 2, 3, 7, 255}
	for n := lo; n <= hi; n++ {
		if !full && n > 2000 && n%97 != 0 && n != 65535 && n != 65534 && n != 32768 {
			continue
		}
		c := dbft.Context[H]{Validators: make([]dbft.PublicKey, n)}
		hs := append([]uint32{uint32(n - 1), uint32(n), uint32(n + 1)}, heights...)
		for _, h := range hs {
			c.BlockIndex = h
			for _, v := range views {
				out.Write(qRow{K: "pt", N: n, HD: digits(h), V: int(v), F: c.F(), M: c.M(), P: int(c.GetPrimaryIndex(v)), PS: []int{}})
			}
		}
		if n <= 64 || (full && n <= 255) {
			for _, h := range []uint32{0, 1, 2, uint32(n), 4294967295} {
				c.BlockIndex = h
				ps := []int{}
				for v := 0; v < n; v++ {
					ps = append(ps, int(c.GetPrimaryIndex(byte(v))))
				}
				out.Write(qRow{K: "rotv", N: n, HD: digits(h), V: 0, F: c.F(), M: c.M(), PS: ps})
			}
			for _, v := range []byte{0, 1, 5} {
				for _, h0 := range []uint32{0, 3, uint32(4294967296 - int64(n))} {
					ps := []int{}
					for k := 0; k < n; k++ {
						c.BlockIndex = h0 + uint32(k)
						ps = append(ps, int(c.GetPrimaryIndex(v)))
					}
					out.Write(qRow{K: "roth", N: n, HD: digits(h0), V: int(v), F: c.F(), M: c.M(), PS: ps})
				}
			}
		}
	}
}

// seqWorld: the validator list of each height is whatever the sequence says (the application's validator set changes).
type seqWorld struct{ counts map[uint32]int }

func (w *seqWorld) ValidatorsAt(h uint32) []int {
	v := make([]int, w.counts[h])
	for i := range v {
		v[i] = i
	}
	if len(v) > 0 {
		v[int(h)%len(v)] = 500 // the node under test is a validator, at a position that moves
	}
	return v
}

// runQuorumSeq (C06): "on a context initialised through Start with N validators and a chosen height" - and re-initialised through
// Reset with ANOTHER validator count: a real DBFT instance is started and taken through a sequence of heights whose validator
// lists grow and shrink; after every (re)initialisation the real N/F/M/GetPrimaryIndex are read. Rows are "pt" rows whose N is
// the validator count the application reported for that height.
func runQuorumSeq(out *TraceWriter) {
	seqs := [][]int{{7, 4, 10, 1, 4, 7, 6, 5, 3, 2, 13, 4}, {4, 7, 4, 1, 2, 3, 21, 5}, {10, 9, 8, 7, 6, 5, 4, 3, 2, 1, 2, 4, 8, 16, 31}, {1, 64, 1, 33, 4}}
	for si, seq := range seqs {
		for _, h0 := range []uint32{0, 5, 65534} {
			w := &seqWorld{counts: map[uint32]int{}}
			for k, c := range seq {
				w.counts[h0+uint32(k)+1] = c
			}
			clk := &Clock{Now: 1000}
			n := NewNode(500, NodeCfg{Tpb: 1000, Inc: 1, AmevH: -1}, w, clk)
			n.Broadcast = func(n *Node, p *Payload) {}
			n.RMsgOrder = func(k int) []int { r := make([]int, k); for i := range r { r[i] = i }; return r }
			n.Height = h0
			n.TipTs = 900
			if h0 > 0 {
				n.TipHash = H(fmt.Sprintf("T:%d", h0))
			}
			for k, c := range seq {
				if k == 0 {
					n.Start()
				} else {
					n.Height++ // the application's ledger moved on (a block fetched from a peer): Reset re-reads everything
					n.TipHash = H(fmt.Sprintf("T:%d", n.Height))
					n.Reset()
				}
				for _, v := range []byte{0, 1, 2, 3, 7, byte(si)} {
					out.Write(qRow{K: "pt", N: c, HD: digits(n.D.BlockIndex), V: int(v), F: n.D.F(), M: n.D.M(), P: int(n.D.GetPrimaryIndex(v)), PS: []int{}})
				}
			}
		}
	}
}

// runProposal (C15): a real primary proposes over a grid of previous-block
// timestamps, clock readings (behind, equal, ahead, unaligned, stepping back
// between heights), timestamp increments and pools.
func runProposal(out *TraceWriter, seed int64, run int, heights int) {
	t, rng := newTimedRun(out, seed, run, "proposal")
	n0 := []int{1, 4, 4, 2}[rng.Intn(4)]
	for i := 0; i < n0; i++ {
		t.vals = append(t.vals, i)
	}
	inc := uint64([]int{1, 7, 1000, 64}[rng.Intn(4)])
	t.h0 = uint32(1 + rng.Intn(6))
	cfg := NodeCfg{Tpb: t.tpb, Inc: inc, AmevH: -1}
	if rng.Intn(3) == 0 {
		cfg.AmevH = 0
	}
	if rng.Intn(4) == 0 {
		cfg.MaxTpb = 3000
	}
	t.target = t.h0 + uint32(heights)
	out.Write(RunStart{Call: "RunStart", Run: run, Seed: seed, Driver: "proposal", Sync: false, Nodes: t.vals, Faulty: []int{},
		Params: map[string]any{"n0": n0, "h0": t.h0, "target": t.target, "inc": inc, "amevH": cfg.AmevH, "maxTpb": cfg.MaxTpb, "tpb": t.tpb}})
	t.c.Clk.Now = 200000
	t.addNodes(cfg, false)
	c := t.c
	prevTs := func() uint64 { // previous block's timestamp relative to the clock: behind, equal, ahead, far ahead, unaligned
		now := uint64(c.Clk.Now)
		switch rng.Intn(7) {
		case 0:
			return now
		case 1:
			return now / inc * inc
		case 2:
			return now + uint64(rng.Intn(5000))
		case 3:
			return now/inc*inc + inc*uint64(1+rng.Intn(3))
		case 4:
			return now/inc*inc - inc
		default:
			return now - uint64(rng.Intn(5000))
		}
	}
	for _, n := range c.Nodes {
		n.TipTs = prevTs()
	}
	poolFor := func(n *Node) {
		n.Pool = nil
		n.Known = map[H]Tx{}
		for k := 0; k < 3; k++ {
			tx := Tx(fmt.Sprintf("t%d.%d", n.Height+1, k))
			n.Known[tx.Hash()] = tx
			if rng.Intn(2) == 0 {
				n.Pool = append(n.Pool, tx)
			}
		}
		rng.Shuffle(len(n.Pool), func(i, j int) { n.Pool[i], n.Pool[j] = n.Pool[j], n.Pool[i] })
	}
	for _, n := range c.Nodes {
		poolFor(n)
		c.Emit(n.Start())
	}
	// drive with zero (or, in half of the runs, small) delays; the clock may step back and the ledger timestamp may be anything
	slow := rng.Intn(2) == 0
	pump := func() {
		for k := 0; k < 400; k++ {
			// deliver everything pending
			progressed := false
			for len(t.q) > 0 {
				d := t.q[0]
				t.q = t.q[1:]
				n := c.byID[d.to]
				if slow && rng.Intn(3) == 0 { // payloads take a little time: a receiver sees a proposal later than it was made
					c.Clk.Now += int64(rng.Intn(40))
				}
				c.Emit(n.Receive(d.p))
				progressed = true
			}
			if progressed {
				continue
			}
			return
		}
	}
	// at some heights the view-0 round fails (responses / commits of view 0 are lost): the proposal of the next view's
	// primary must still be based on the previous BLOCK's timestamp, not on anything seen in the failed view
	failV0 := map[uint32]bool{}
	for h := t.h0; h <= t.target+1; h++ {
		failV0[h] = n0 > 1 && rng.Intn(2) == 0
	}
	for _, n := range c.Nodes {
		n.Broadcast = func(from *Node, p *Payload) {
			if failV0[p.Ht] && p.V == 0 && (p.T == dbft.PrepareResponseType || p.T == dbft.CommitType || p.T == dbft.PreCommitType || p.T == dbft.RecoveryMessageType) {
				return
			}
			for _, m := range c.Nodes {
				if m.ID != from.ID {
					t.q = append(t.q, delivery{to: m.ID, p: p.clone()})
				}
			}
		}
	}
	// the Start above already broadcast (primary proposes at once): re-deliver from the pool
	for i, p := range c.Pool {
		for _, m := range c.Nodes {
			if m.ID != c.PoolBy[i] {
				t.q = append(t.q, delivery{to: m.ID, p: p.clone()})
			}
		}
	}
	for step := 0; step < heights*16; step++ {
		pump()
		// everybody who accepted moves on
		moved := false
		for _, n := range c.Nodes {
			if acc := n.Accepted[n.Height+1]; len(acc) > 0 {
				n.AdvanceLedger(acc[0])
				switch rng.Intn(4) { // the application may report any previous timestamp; the clock may step back
				case 0:
					c.Clk.Now -= int64(rng.Intn(3000))
				case 1:
					c.Clk.Now += int64(rng.Intn(3000))
				}
				if rng.Intn(3) == 0 {
					n.TipTs = prevTs()
				}
				poolFor(n)
				c.Emit(n.Reset())
				moved = true
			}
		}
		if moved {
			continue
		}
		// fire the earliest timer (clock jumps to it, or stays if it is in the past)
		var best *Node
		for _, n := range c.Nodes {
			if n.Timer.Armed && (best == nil || n.Timer.Due < best.Timer.Due) {
				best = n
			}
		}
		if best == nil {
			break
		}
		if best.Timer.Due > c.Clk.Now {
			c.Clk.Now = best.Timer.Due
		}
		if rng.Intn(5) == 0 {
			c.Clk.Now += int64(rng.Intn(int(inc) + 3))
		}
		if rng.Intn(6) == 0 { // the clock steps back INSIDE a height (after proposals / preparations of this height were seen)
			c.Clk.Now -= int64(rng.Intn(3000))
		}
		c.Emit(best.Timeout(best.Timer.H, best.Timer.V))
	}
}
