package main

// Driver "async": random asynchronous adversary over a cluster of real nodes.
// Delivery order, loss, duplication, timer firing, Byzantine payloads under
// the faulty validators' identities, missing transactions, amnesia restarts,
// watch-only members, validator-set changes, multi-height runs with Reset.

import (
	"fmt"
	mrand "math/rand"

	"github.com/nspcc-dev/dbft"
)

type asyncRun struct {
	c        *Cluster
	rng      *mrand.Rand
	byz      []int
	amnesia  int // id or -1
	valTable map[uint32][]int
	n0       int
	ids      []int                // all validator identities ever used
	seen     map[int]map[int]bool // node id -> pool index delivered
	byzProps map[[2]int][]*Payload
	nonce    uint64
	h0       uint32
	varVals  bool
	pending  map[int]bool // node id -> the application's ledger has moved on, Reset not called yet
}

func pick[T any](r *mrand.Rand, l []T) T { return l[r.Intn(len(l))] }

func weighted(r *mrand.Rand, w []int) int {
	t := 0
	for _, x := range w {
		t += x
	}
	k := r.Intn(t)
	for i, x := range w {
		if k < x {
			return i
		}
		k -= x
	}
	return len(w) - 1
}

func (a *asyncRun) vals(h uint32) []int {
	if v, ok := a.valTable[h]; ok {
		return v
	}
	var v []int
	if !a.varVals || h <= a.h0+1 {
		for i := 0; i < a.n0; i++ {
			v = append(v, i)
		}
	} else {
		// deterministic pseudo-random membership for height h
		r := mrand.New(mrand.NewSource(int64(h)*7919 + int64(a.n0)))
		n := a.n0
		switch r.Intn(3) {
		case 0:
			if n > 1 {
				n--
			}
		case 1:
			n++
		}
		if n > len(a.ids) {
			n = len(a.ids)
		}
		p := r.Perm(len(a.ids))
		for i := 0; i < n; i++ {
			v = append(v, a.ids[p[i]])
		}
	}
	a.valTable[h] = v
	return v
}

func (a *asyncRun) isByz(id int) bool { return indexOf(a.byz, id) >= 0 }

func (a *asyncRun) setupPool(n *Node) {
	h := n.Height + 1
	n.Pool = nil
	for k := 0; k < 3; k++ {
		t := Tx(fmt.Sprintf("t%d.%d", h, k))
		if a.rng.Intn(100) < 45 {
			n.Pool = append(n.Pool, t)
			n.Known[t.Hash()] = t
		} else if a.rng.Intn(100) < 60 {
			n.Known[t.Hash()] = t
		}
		if a.rng.Intn(100) < 4 {
			n.BadTx[t.Hash()] = true
		}
	}
}

func runAsync(out *TraceWriter, seed int64, run int, steps int) {
	rng := mrand.New(mrand.NewSource(seed*1000003 + int64(run)))
	seedNonces(seed*7 + int64(run))
	c := NewCluster(seed+int64(run), out)
	c.Rng = rng
	if run%5 == 3 {
		c.Clk.Origin = FarOrigin // the injected clock lies far beyond the machine's date (traces stay relative to the origin)
	}
	a := &asyncRun{c: c, rng: rng, amnesia: -1, byz: []int{}, valTable: map[uint32][]int{}, seen: map[int]map[int]bool{}, byzProps: map[[2]int][]*Payload{}, pending: map[int]bool{}}
	a.n0 = []int{4, 4, 4, 4, 4, 4, 4, 7, 5, 6, 3, 2, 1, 10}[rng.Intn(14)]
	a.h0 = uint32(rng.Intn(7))
	a.varVals = rng.Intn(100) < 20
	nIDs := a.n0
	if a.varVals {
		nIDs = a.n0 + 2
	}
	for i := 0; i < nIDs; i++ {
		a.ids = append(a.ids, i)
	}
	c.Vals = a.vals
	f := fOf(a.n0)
	nb := 0
	if f > 0 {
		nb = rng.Intn(f + 1)
	}
	perm := rng.Perm(a.n0)
	for i := 0; i < nb; i++ {
		a.byz = append(a.byz, perm[i])
	}
	budget := f - nb
	watchFlag := -1
	if budget > 0 && rng.Intn(100) < 40 {
		a.amnesia = perm[nb]
		budget--
	}
	lateWatch := -1
	if budget > 0 && rng.Intn(100) < 40 {
		watchFlag = perm[nb+1]
		if rng.Intn(2) == 0 { // starts as an ordinary validator, the flag is set at some moment of the run
			lateWatch, watchFlag = watchFlag, -1
		}
	}
	cfg := NodeCfg{Tpb: 1000, Inc: uint64([]int{1, 1, 7}[rng.Intn(3)]), AmevH: -1}
	switch rng.Intn(4) {
	case 0:
		cfg.AmevH = 0
	case 1:
		cfg.AmevH = int64(a.h0) + 2
	}
	if rng.Intn(100) < 30 {
		cfg.MaxTpb = 3000
	}
	faulty := append([]int{}, a.byz...)
	if a.amnesia >= 0 {
		faulty = append(faulty, a.amnesia)
	}
	var nodes []int
	for _, id := range a.ids {
		if a.isByz(id) {
			continue
		}
		nc := cfg
		nc.Watch = id == watchFlag
		n := c.AddNode(id, nc)
		n.LaxVerify = run%3 != 0 // most asynchronous runs: an application that does not look at block bodies (what the library puts into a block is then judged by the C02 formulas)
		n.Height = a.h0
		a.seen[id] = map[int]bool{}
		nodes = append(nodes, id)
	}
	if rng.Intn(100) < 30 { // an observer outside the validator list
		n := c.AddNode(100, cfg)
		n.Height = a.h0
		a.seen[100] = map[int]bool{}
		nodes = append(nodes, 100)
	}
	out.Write(RunStart{Call: "RunStart", Run: run, Seed: seed, Driver: "async", Nodes: nodes, Faulty: faulty,
		Params: map[string]any{"n0": a.n0, "h0": a.h0, "byz": a.byz, "amnesia": a.amnesia, "watchFlag": watchFlag, "lateWatch": lateWatch,
			"amevH": cfg.AmevH, "maxTpb": cfg.MaxTpb, "inc": cfg.Inc, "varVals": a.varVals, "steps": steps}})
	for _, n := range c.Nodes {
		a.setupPool(n)
		c.Emit(n.Start())
	}
	flipAt := -1
	if lateWatch >= 0 {
		flipAt = rng.Intn(steps)
	}
	for s := 0; s < steps; s++ {
		if s == flipAt {
			c.byID[lateWatch].SetWatch() // the watch-only flag is set while the node is running
		}
		a.step()
	}
}

func (a *asyncRun) deliverTo(n *Node, i int) {
	a.seen[n.ID][i] = true
	a.c.Emit(n.Receive(a.c.Pool[i]))
}

func (a *asyncRun) step() {
	c, rng := a.c, a.rng
	switch weighted(rng, []int{46, 12, 14, 8, 9, 2, 2, 4, 2, 1}) {
	case 0: // deliver a pooled payload
		if len(c.Pool) == 0 {
			return
		}
		n := pick(rng, c.Nodes)
		var fresh, cur []int
		for i, p := range c.Pool {
			if c.PoolBy[i] == n.ID || a.seen[n.ID][i] {
				continue
			}
			fresh = append(fresh, i)
			if n.started && p.Ht == n.D.BlockIndex {
				cur = append(cur, i)
			}
		}
		switch {
		case rng.Intn(100) < 6: // duplicate / arbitrary old payload, own ones included
			a.deliverTo(n, rng.Intn(len(c.Pool)))
		case len(cur) > 0 && rng.Intn(100) < 85:
			// mostly oldest-first among the current height, sometimes any
			if rng.Intn(100) < 50 {
				a.deliverTo(n, cur[0])
			} else {
				a.deliverTo(n, pick(rng, cur))
			}
		case len(fresh) > 0:
			a.deliverTo(n, pick(rng, fresh))
		}
	case 1: // timer
		n := pick(rng, c.Nodes)
		if !n.Timer.Armed {
			return
		}
		if rng.Intn(100) < 8 { // stale or foreign tag
			h, v := n.Timer.H, n.Timer.V
			switch rng.Intn(3) {
			case 0:
				v++
			case 1:
				if v > 0 {
					v--
				} else {
					h++
				}
			default:
				if h > 0 {
					h--
				}
			}
			c.Emit(n.Timeout(h, v))
			return
		}
		if n.Timer.Due > c.Clk.Now {
			c.Clk.Now = n.Timer.Due
		}
		c.Emit(n.Timeout(n.Timer.H, n.Timer.V))
	case 2: // Byzantine payload
		a.byzStep()
	case 3: // transaction supply
		n := pick(rng, c.Nodes)
		if !n.started {
			return
		}
		if m := n.D.MissingTransactions; len(m) > 0 && rng.Intn(100) < 80 {
			c.Emit(n.Transaction(Tx(pick(rng, m))))
		} else if len(n.Requested) > 0 && rng.Intn(100) < 70 {
			c.Emit(n.Transaction(Tx(pick(rng, n.Requested)))) // possibly a late answer to an earlier view's request
		} else {
			c.Emit(n.Transaction(Tx(fmt.Sprintf("t%d.%d", n.D.BlockIndex, rng.Intn(4)))))
		}
	case 4: // ledger advance / sync + Reset
		n := pick(rng, c.Nodes)
		if a.pending[n.ID] {
			delete(a.pending, n.ID)
			a.setupPool(n)
			c.Emit(n.Reset())
			return
		}
		if b := c.Chain[n.Height+1]; b != nil {
			own := n.Accepted[n.Height+1]
			if len(own) > 0 {
				b = own[0]
			}
			// a lagging node may jump several heights at once
			for rng.Intn(100) < 30 && c.Chain[b.Rec.H+1] != nil && len(n.Accepted[b.Rec.H+1]) == 0 {
				b = c.Chain[b.Rec.H+1]
			}
			n.AdvanceLedger(b)
			if rng.Intn(100) < 25 { // the application has the block but calls Reset only later
				a.pending[n.ID] = true
				return
			}
			a.setupPool(n)
			c.Emit(n.Reset())
		}
	case 5: // amnesia restart
		if a.amnesia < 0 {
			return
		}
		n := c.byID[a.amnesia]
		delete(a.pending, n.ID)
		if b := c.Chain[n.Height+1]; b != nil && rng.Intn(2) == 0 {
			n.AdvanceLedger(b)
		}
		a.setupPool(n)
		if rng.Intn(100) < 35 {
			n.Cfg.Watch = true // the operator brings the validator back as an observer: same key, watch-only flag set
		}
		c.Emit(n.Restart())
	case 6: // new transaction notification
		n := pick(rng, c.Nodes)
		if rng.Intn(2) == 0 {
			t := Tx(fmt.Sprintf("t%d.%d", n.Height+1, rng.Intn(3)))
			if _, ok := n.Known[t.Hash()]; !ok || indexOfTx(n.Pool, t) < 0 {
				if indexOfTx(n.Pool, t) < 0 {
					n.Pool = append(n.Pool, t)
				}
				n.Known[t.Hash()] = t
			}
		}
		c.Emit(n.NewTransaction())
	case 7: // time passes
		c.Clk.Now += int64(rng.Intn(600))
	case 8: // flush: everything pending reaches everybody, random order
		type pr struct{ n, i int }
		var l []pr
		for ni, n := range c.Nodes {
			for i := range c.Pool {
				if c.PoolBy[i] != n.ID && !a.seen[n.ID][i] {
					l = append(l, pr{ni, i})
				}
			}
		}
		rng.Shuffle(len(l), func(i, j int) { l[i], l[j] = l[j], l[i] })
		if len(l) > 60 {
			l = l[:60]
		}
		for _, x := range l {
			a.deliverTo(c.Nodes[x.n], x.i)
		}
	case 9: // application misbehaviour knobs
		n := pick(rng, c.Nodes)
		switch rng.Intn(4) {
		case 0:
			n.FailPreBlock = 1
		case 1:
			n.FailBlock = 1
		case 2:
			k := rng.Intn(50)
			n.RejectPayload = func(p *Payload) bool { return (int(p.T)+3*int(p.From)+int(p.V)+k)%11 == 0 }
		default:
			n.RejectPayload = nil
		}
	}
}

// byzStep crafts one payload under a faulty identity (or a garbage payload
// anybody can send) and gives it directly to one node.
func (a *asyncRun) byzStep() {
	c, rng := a.c, a.rng
	n := pick(rng, c.Nodes)
	if !n.started {
		return
	}
	d := n.D
	h, v := d.BlockIndex, d.ViewNumber
	vals := a.vals(h)
	if len(a.byz) == 0 || rng.Intn(100) < 8 {
		// garbage any network peer can inject: index out of range, past
		// height, nil body, unknown type
		var p *Payload
		switch rng.Intn(5) {
		case 0:
			p = mkCV(h, v, len(vals)+rng.Intn(3), v+1, 0)
		case 1:
			if h == 0 {
				return
			}
			p = mkCV(h-1, v, rng.Intn(len(vals)), v+1, 0)
		case 2:
			p = &Payload{T: dbft.CommitType, Ht: h, V: v, From: uint16(len(vals) + 1), Body: &CommitBody{Sig: []byte("x")}}
		case 3:
			p = &Payload{T: dbft.PrepareResponseType, Ht: h, V: v, From: uint16(rng.Intn(len(vals))), Body: nil}
		default:
			p = mkRReq(h, v, len(vals), 0)
		}
		c.Emit(n.Receive(p))
		return
	}
	b := pick(rng, a.byz)
	ib := indexOf(vals, b)
	if ib < 0 {
		return // not a validator at this height: nothing it can say under its identity
	}
	// pick the view the payload talks about
	pv := v
	switch rng.Intn(10) {
	case 0:
		pv = v + 1
	case 1:
		if v > 0 {
			pv = v - 1
		}
	}
	// proposals known for (h, pv): honest ones from the pool, Byzantine ones made so far
	var props []*Payload
	for _, p := range c.Pool {
		if p.T == dbft.PrepareRequestType && p.Ht == h && p.V == pv {
			props = append(props, p)
		}
	}
	props = append(props, a.byzProps[[2]int{int(h), int(pv)}]...)
	primary := int(int(h)-int(pv)) % len(vals)
	if primary < 0 {
		primary += len(vals)
	}
	var p *Payload
	switch weighted(rng, []int{18, 18, 22, 12, 14, 4, 12}) {
	case 0: // proposal (equivocating: up to 3 contents per view)
		if ib != primary {
			// a proposal from a non-primary: inadmissible
			p = mkReq(h, pv, ib, uint64(c.Clk.Now), 99, nil)
			break
		}
		l := a.byzProps[[2]int{int(h), int(pv)}]
		if len(l) < 3 && (len(l) == 0 || rng.Intn(2) == 0) {
			a.nonce++
			var txs []H
			for k := 0; k < 3; k++ {
				if rng.Intn(3) == 0 {
					txs = append(txs, H(fmt.Sprintf("t%d.%d", h, k)))
				}
			}
			ts := rel(d.VerifSnapshot().LastBlockTimestamp, n.Clk.Origin) + uint64(1+rng.Intn(3))*n.Cfg.Inc
			switch rng.Intn(6) { // nobody checks a proposal's timestamp but the application
			case 0:
				ts = uint64(c.Clk.Now) + uint64(1000+rng.Intn(5000))
			case 1:
				ts = uint64(c.Clk.Now) / n.Cfg.Inc * n.Cfg.Inc
			}
			q := mkReq(h, pv, ib, ts, 1000+a.nonce, txs)
			a.byzProps[[2]int{int(h), int(pv)}] = append(l, q)
			p = q
		} else {
			p = pick(rng, l)
		}
	case 1: // response
		if len(props) > 0 && rng.Intn(100) < 85 {
			p = mkResp(h, pv, ib, pick(rng, props).Hash())
		} else {
			p = mkResp(h, pv, ib, H(fmt.Sprintf("R|%d|%d|%d|0|junk%d|", h, pv, primary, rng.Intn(2))))
		}
	case 2: // commit
		if len(props) > 0 && rng.Intn(100) < 85 {
			br := blockRecOf(pick(rng, props), d.PrevHash)
			p = mkCommit(h, pv, ib, MakeSig(b, br.hash("B")))
		} else {
			p = mkCommit(h, pv, ib, []byte(fmt.Sprintf("junk%d", rng.Intn(2))))
		}
	case 3: // pre-commit
		if len(props) > 0 && rng.Intn(100) < 85 {
			br := blockRecOf(pick(rng, props), d.PrevHash)
			p = mkPreCommit(h, pv, ib, MakeData(b, br.hash("PB")))
		} else {
			p = mkPreCommit(h, pv, ib, []byte(fmt.Sprintf("junk%d", rng.Intn(2))))
		}
	case 4: // change view
		p = mkCV(h, pv, ib, pv+1+byte(rng.Intn(2)), uint64(c.Clk.Now))
	case 5:
		p = mkRReq(h, pv, ib, uint64(c.Clk.Now))
	default: // recovery message: genuine payloads seen on the network plus own crafted ones
		rm := &RMsgBody{order: func(k int) []int { return rng.Perm(k) }}
		have := map[string]bool{}
		add := func(q *Payload) {
			k := fmt.Sprintf("%d/%d", q.T, q.From)
			if q.T == dbft.PrepareRequestType || q.T == dbft.PrepareResponseType {
				k = fmt.Sprintf("p/%d", q.From)
			}
			if have[k] {
				return
			}
			have[k] = true
			rm.AddPayload(q)
		}
		for _, i := range rng.Perm(len(c.Pool)) {
			q := c.Pool[i]
			if q.Ht != h || q.T == dbft.RecoveryMessageType || q.T == dbft.RecoveryRequestType || rng.Intn(100) < 40 {
				continue
			}
			if (q.T == dbft.PrepareRequestType || q.T == dbft.PrepareResponseType) && q.V != pv {
				continue
			}
			add(q)
		}
		if len(props) > 0 && rng.Intn(2) == 0 {
			pr := pick(rng, props)
			if int(pr.From) == ib {
				add(pr)
			}
			br := blockRecOf(pr, d.PrevHash)
			if rng.Intn(2) == 0 {
				add(mkCommit(h, pv, ib, MakeSig(b, br.hash("B"))))
			}
			if rng.Intn(2) == 0 {
				add(mkResp(h, pv, ib, pr.Hash()))
			}
		}
		if rng.Intn(3) == 0 {
			add(mkCV(h, pv, ib, pv+1, uint64(c.Clk.Now)))
		}
		p = &Payload{T: dbft.RecoveryMessageType, Ht: h, V: pv, From: uint16(ib), Body: rm}
	}
	c.Emit(n.Receive(p))
}

func indexOfTx(l []Tx, t Tx) int {
	for i, x := range l {
		if x == t {
			return i
		}
	}
	return -1
}
