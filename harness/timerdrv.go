package main

// Driver "timer" (C18): seeded operation sequences on the real bundled timer
// (github.com/nspcc-dev/dbft/timer), every call stamped with the monotonic
// clock before and after; the log is validated by TLC against spec/BundledTimer.tla.

import (
	"bufio"
	"encoding/json"
	mrand "math/rand"
	"os"
	"sync"
	"time"

	btimer "github.com/nspcc-dev/dbft/timer"
)

type tEv struct {
	K   string `json:"k"` // Reset | Extend | Wait | Sleep
	Run int    `json:"run"`
	I   int    `json:"i"`
	H   int    `json:"h"`
	V   int    `json:"v"`
	D   int64  `json:"d"`  // duration argument / max wait (ns)
	T0  int64  `json:"t0"` // ns since the start of the sequence, before the call
	T1  int64  `json:"t1"` // ... after the call returned
	Got bool   `json:"got"`
	RH  int    `json:"rh"` // Height() / View() read right after
	RV  int    `json:"rv"`
}

func runTimer(out *TraceWriter, seed int64, from, runs, steps int) {
	var mu sync.Mutex
	var wg sync.WaitGroup
	res := make([][]tEv, runs)
	sem := make(chan struct{}, 24)
	for r := 0; r < runs; r++ {
		wg.Add(1)
		sem <- struct{}{}
		go func(r int) {
			defer wg.Done()
			defer func() { <-sem }()
			rng := mrand.New(mrand.NewSource(seed*7919 + int64(from+r)))
			t := btimer.New()
			base := time.Now()
			now := func() int64 { return int64(time.Since(base)) }
			var evs []tEv
			durs := []time.Duration{0, 0, 5 * time.Millisecond, 25 * time.Millisecond, 60 * time.Millisecond}
			waits := []time.Duration{0, 10 * time.Millisecond, 40 * time.Millisecond, 130 * time.Millisecond}
			h, v := 1, 0
			armed := false
			for i := 0; i < steps; i++ {
				e := tEv{Run: from + r, I: i}
				op := rng.Intn(10)
				if !armed {
					op = 0
				}
				switch {
				case op < 3:
					switch rng.Intn(3) { // a new height, a new view, or the same epoch again (the library re-arms the timer inside a view)
					case 0:
						h++
						v = 0
					case 1:
						v++
					}
					d := durs[rng.Intn(len(durs))]
					e.K, e.H, e.V, e.D = "Reset", h, v, int64(d)
					e.T0 = now()
					t.Reset(uint32(h), byte(v), d)
					e.T1 = now()
					armed = true
				case op < 5:
					d := durs[1+rng.Intn(len(durs)-1)]
					e.K, e.D = "Extend", int64(d)
					e.T0 = now()
					t.Extend(d)
					e.T1 = now()
				case op < 9:
					w := waits[rng.Intn(len(waits))]
					e.K, e.D = "Wait", int64(w)
					e.T0 = now()
					if w == 0 {
						select {
						case <-t.C():
							e.Got = true
						default:
						}
					} else {
						select {
						case <-t.C():
							e.Got = true
						case <-time.After(w):
						}
					}
					e.T1 = now()
				default:
					w := time.Duration(rng.Intn(30)) * time.Millisecond
					e.K, e.D = "Sleep", int64(w)
					e.T0 = now()
					time.Sleep(w)
					e.T1 = now()
				}
				e.RH, e.RV = int(t.Height()), int(t.View())
				evs = append(evs, e)
			}
			mu.Lock()
			res[r] = evs
			mu.Unlock()
		}(r)
	}
	wg.Wait()
	for _, evs := range res {
		for _, e := range evs {
			out.Write(e)
		}
	}
}

// runTimerScript executes operation sequences generated from spec/TimerImpl.tla (its state cover: one schedule per reachable
// state of the implementation-shaped timer model) on the real timer. One clock unit of the model = unit milliseconds; the
// model's "Sleep" is a real sleep, "Wait" a non-blocking receive from C(). Every call is stamped like in runTimer and the log is
// validated against spec/BundledTimer.tla on the MEASURED stamps.
func runTimerScript(out *TraceWriter, file string, from int, unit int) {
	type op struct {
		K string `json:"k"`
		H int    `json:"h"`
		V int    `json:"v"`
		D int64  `json:"d"`
	}
	f, err := os.Open(file)
	if err != nil {
		panic(err)
	}
	defer f.Close()
	var scripts [][]op
	sc := bufio.NewScanner(f)
	sc.Buffer(make([]byte, 1<<20), 1<<26)
	for sc.Scan() {
		var ops []op
		if err := json.Unmarshal(sc.Bytes(), &ops); err != nil {
			panic(err)
		}
		scripts = append(scripts, ops)
	}
	u := time.Duration(unit) * time.Millisecond
	res := make([][]tEv, len(scripts))
	var wg sync.WaitGroup
	sem := make(chan struct{}, 48)
	for r := range scripts {
		wg.Add(1)
		sem <- struct{}{}
		go func(r int) {
			defer wg.Done()
			defer func() { <-sem }()
			t := btimer.New()
			base := time.Now()
			now := func() int64 { return int64(time.Since(base)) }
			var evs []tEv
			for i, o := range scripts[r] {
				e := tEv{Run: from + r, I: i, K: o.K}
				switch o.K {
				case "Reset":
					e.H, e.V, e.D = o.H, o.V, int64(time.Duration(o.D)*u)
					e.T0 = now()
					t.Reset(uint32(o.H), byte(o.V), time.Duration(o.D)*u)
					e.T1 = now()
				case "Extend":
					e.D = int64(time.Duration(o.D) * u)
					e.T0 = now()
					t.Extend(time.Duration(o.D) * u)
					e.T1 = now()
				case "Wait":
					e.T0 = now()
					select {
					case <-t.C():
						e.Got = true
					default:
					}
					e.T1 = now()
				case "End": // the model says an expiry is still to be had: a blocking read must get it (within the tolerance of BundledTimer.tla)
					w := 700 * time.Millisecond
					e.K, e.D = "Wait", int64(w)
					e.T0 = now()
					select {
					case <-t.C():
						e.Got = true
					case <-time.After(w):
					}
					e.T1 = now()
				default: // Sleep
					e.K, e.D = "Sleep", int64(time.Duration(o.D)*u)
					e.T0 = now()
					time.Sleep(time.Duration(o.D)*u + u/4) // a quarter unit past the model's instant: away from the deadlines, which lie on unit boundaries
					e.T1 = now()
				}
				e.RH, e.RV = int(t.Height()), int(t.View())
				evs = append(evs, e)
			}
			res[r] = evs
		}(r)
	}
	wg.Wait()
	for _, evs := range res {
		for _, e := range evs {
			out.Write(e)
		}
	}
}
