package main

// Driver "payload" (C19): value-level enumeration over the bundled reference
// payload / block / crypto / merkle code. One row per case; TLC checks the rows
// against the expectation table of spec/PayloadAlgebra.tla.

import (
	"bytes"
	"crypto/rand"
	"crypto/sha256"
	"encoding/gob"
	"fmt"
	mrand "math/rand"

	"github.com/nspcc-dev/dbft"
	"github.com/nspcc-dev/dbft/internal/consensus"
	"github.com/nspcc-dev/dbft/internal/crypto"
	"github.com/nspcc-dev/dbft/internal/merkle"
)

type U = crypto.Uint256

type pRow struct {
	K     string `json:"k"`     // mut | codec | garbage | recovery | sig | merkle
	Obj   string `json:"obj"`   // payload type / block / ...
	Field string `json:"field"` // what was changed / which case
	Same  bool   `json:"same"`  // hashes (or values) equal
	Ok    bool   `json:"ok"`    // operation succeeded / verified
	Panic bool   `json:"panic"`
	N     int    `json:"n"`
}

func h256(i int) U { return crypto.Hash256([]byte(fmt.Sprintf("h%d", i))) }

func encPayload(p dbft.ConsensusPayload[U]) []byte {
	var buf bytes.Buffer
	_ = p.(*consensus.Payload).EncodeBinary(gob.NewEncoder(&buf))
	return buf.Bytes()
}

func decPayload(b []byte) (p *consensus.Payload, err error, panicked bool) {
	defer func() {
		if r := recover(); r != nil {
			panicked = true
		}
	}()
	p = new(consensus.Payload)
	err = p.DecodeBinary(gob.NewDecoder(bytes.NewReader(b)))
	return
}

const sec = uint64(1000000000)

func runPayload(out *TraceWriter, seed int64, full bool) {
	rng := mrand.New(mrand.NewSource(seed))
	mk := consensus.NewConsensusPayload
	w := func(r pRow) { out.Write(r) }
	txs := []U{h256(1), h256(2), h256(3)}
	type variant struct {
		name string
		p    func() dbft.ConsensusPayload[U]
	}
	bodies := map[string][]variant{
		"PrepareRequest": {
			{"base", func() dbft.ConsensusPayload[U] {
				return mk(dbft.PrepareRequestType, 5, 2, 1, consensus.NewPrepareRequest(7*sec, 42, txs))
			}},
			{"timestamp", func() dbft.ConsensusPayload[U] {
				return mk(dbft.PrepareRequestType, 5, 2, 1, consensus.NewPrepareRequest(8*sec, 42, txs))
			}},
			{"nonce", func() dbft.ConsensusPayload[U] {
				return mk(dbft.PrepareRequestType, 5, 2, 1, consensus.NewPrepareRequest(7*sec, 43, txs))
			}},
			{"txs-drop", func() dbft.ConsensusPayload[U] {
				return mk(dbft.PrepareRequestType, 5, 2, 1, consensus.NewPrepareRequest(7*sec, 42, txs[:2]))
			}},
			{"txs-order", func() dbft.ConsensusPayload[U] {
				return mk(dbft.PrepareRequestType, 5, 2, 1, consensus.NewPrepareRequest(7*sec, 42, []U{txs[1], txs[0], txs[2]}))
			}},
			{"txs-other", func() dbft.ConsensusPayload[U] {
				return mk(dbft.PrepareRequestType, 5, 2, 1, consensus.NewPrepareRequest(7*sec, 42, []U{txs[0], txs[1], h256(9)}))
			}},
			{"height", func() dbft.ConsensusPayload[U] {
				return mk(dbft.PrepareRequestType, 6, 2, 1, consensus.NewPrepareRequest(7*sec, 42, txs))
			}},
			{"view", func() dbft.ConsensusPayload[U] {
				return mk(dbft.PrepareRequestType, 5, 2, 2, consensus.NewPrepareRequest(7*sec, 42, txs))
			}},
			{"index", func() dbft.ConsensusPayload[U] {
				return mk(dbft.PrepareRequestType, 5, 3, 1, consensus.NewPrepareRequest(7*sec, 42, txs))
			}},
		},
		"PrepareResponse": {
			{"base", func() dbft.ConsensusPayload[U] {
				return mk(dbft.PrepareResponseType, 5, 2, 1, consensus.NewPrepareResponse(h256(1)))
			}},
			{"prephash", func() dbft.ConsensusPayload[U] {
				return mk(dbft.PrepareResponseType, 5, 2, 1, consensus.NewPrepareResponse(h256(2)))
			}},
			{"height", func() dbft.ConsensusPayload[U] {
				return mk(dbft.PrepareResponseType, 6, 2, 1, consensus.NewPrepareResponse(h256(1)))
			}},
			{"view", func() dbft.ConsensusPayload[U] {
				return mk(dbft.PrepareResponseType, 5, 2, 0, consensus.NewPrepareResponse(h256(1)))
			}},
			{"index", func() dbft.ConsensusPayload[U] {
				return mk(dbft.PrepareResponseType, 5, 1, 1, consensus.NewPrepareResponse(h256(1)))
			}},
			{"type", func() dbft.ConsensusPayload[U] {
				return mk(dbft.CommitType, 5, 2, 1, consensus.NewCommit(make([]byte, 64)))
			}},
		},
		"ChangeView": {
			{"base", func() dbft.ConsensusPayload[U] {
				return mk(dbft.ChangeViewType, 5, 2, 1, consensus.NewChangeView(2, dbft.CVTimeout, 7*sec))
			}},
			{"timestamp", func() dbft.ConsensusPayload[U] {
				return mk(dbft.ChangeViewType, 5, 2, 1, consensus.NewChangeView(2, dbft.CVTimeout, 9*sec))
			}},
			{"height", func() dbft.ConsensusPayload[U] {
				return mk(dbft.ChangeViewType, 6, 2, 1, consensus.NewChangeView(2, dbft.CVTimeout, 7*sec))
			}},
			{"view", func() dbft.ConsensusPayload[U] {
				return mk(dbft.ChangeViewType, 5, 2, 2, consensus.NewChangeView(3, dbft.CVTimeout, 7*sec))
			}},
			{"index", func() dbft.ConsensusPayload[U] {
				return mk(dbft.ChangeViewType, 5, 0, 1, consensus.NewChangeView(2, dbft.CVTimeout, 7*sec))
			}},
			{"newview", func() dbft.ConsensusPayload[U] {
				return mk(dbft.ChangeViewType, 5, 2, 1, consensus.NewChangeView(3, dbft.CVTimeout, 7*sec))
			}},
			{"reason", func() dbft.ConsensusPayload[U] {
				return mk(dbft.ChangeViewType, 5, 2, 1, consensus.NewChangeView(2, dbft.CVTxInvalid, 7*sec))
			}},
		},
		"Commit": {
			{"base", func() dbft.ConsensusPayload[U] {
				return mk(dbft.CommitType, 5, 2, 1, consensus.NewCommit(bytes.Repeat([]byte{1}, 64)))
			}},
			{"signature", func() dbft.ConsensusPayload[U] {
				return mk(dbft.CommitType, 5, 2, 1, consensus.NewCommit(bytes.Repeat([]byte{2}, 64)))
			}},
			{"height", func() dbft.ConsensusPayload[U] {
				return mk(dbft.CommitType, 6, 2, 1, consensus.NewCommit(bytes.Repeat([]byte{1}, 64)))
			}},
			{"view", func() dbft.ConsensusPayload[U] {
				return mk(dbft.CommitType, 5, 2, 0, consensus.NewCommit(bytes.Repeat([]byte{1}, 64)))
			}},
			{"index", func() dbft.ConsensusPayload[U] {
				return mk(dbft.CommitType, 5, 3, 1, consensus.NewCommit(bytes.Repeat([]byte{1}, 64)))
			}},
		},
		"RecoveryRequest": {
			{"base", func() dbft.ConsensusPayload[U] {
				return mk(dbft.RecoveryRequestType, 5, 2, 1, consensus.NewRecoveryRequest(7*sec))
			}},
			{"timestamp", func() dbft.ConsensusPayload[U] {
				return mk(dbft.RecoveryRequestType, 5, 2, 1, consensus.NewRecoveryRequest(8*sec))
			}},
			{"index", func() dbft.ConsensusPayload[U] {
				return mk(dbft.RecoveryRequestType, 5, 1, 1, consensus.NewRecoveryRequest(7*sec))
			}},
		},
	}
	for typ, vs := range bodies {
		base := vs[0].p()
		// hash is a function of content only: two independently built equal payloads, and repeated calls
		w(pRow{K: "mut", Obj: typ, Field: "none", Same: base.Hash() == vs[0].p().Hash() && base.Hash() == base.Hash()})
		for _, v := range vs[1:] {
			w(pRow{K: "mut", Obj: typ, Field: v.name, Same: base.Hash() == v.p().Hash()})
		}
		// hash follows later changes of the same object
		q := vs[0].p()
		h1 := q.Hash()
		q.SetValidatorIndex(q.ValidatorIndex() + 1)
		w(pRow{K: "mut", Obj: typ, Field: "index-after-hash", Same: h1 == q.Hash()})
		// codec
		enc := encPayload(base)
		d, err, pn := decPayload(enc)
		ok := err == nil && !pn
		w(pRow{K: "codec", Obj: typ, Field: "roundtrip", Ok: ok, Panic: pn, Same: ok && d.Hash() == base.Hash() && d.Type() == base.Type() &&
			d.Height() == base.Height() && d.ViewNumber() == base.ViewNumber() && d.ValidatorIndex() == base.ValidatorIndex()})
		// corrupted encodings: error or payload, never a panic
		lim := len(enc)
		if !full && lim > 120 {
			lim = 120
		}
		for k := 0; k < lim; k++ {
			_, err, pn := decPayload(enc[:k])
			w(pRow{K: "garbage", Obj: typ, Field: "truncate", N: k, Ok: err == nil, Panic: pn})
			b := append([]byte(nil), enc...)
			b[k] ^= byte(1 + rng.Intn(255))
			_, err, pn = decPayload(b)
			w(pRow{K: "garbage", Obj: typ, Field: "flip", N: k, Ok: err == nil, Panic: pn})
		}
	}
	for i := 0; i < 200; i++ {
		b := make([]byte, rng.Intn(300))
		rng.Read(b)
		_, err, pn := decPayload(b)
		w(pRow{K: "garbage", Obj: "random", Field: "random", N: i, Ok: err == nil, Panic: pn})
	}
	// recovery message: the proposal and the responses rebuilt from it
	for sender := 0; sender < 4; sender++ {
		req := mk(dbft.PrepareRequestType, 5, 2, 1, consensus.NewPrepareRequest(7*sec, 42, txs))
		rm := consensus.NewRecoveryMessage(nil)
		rm.AddPayload(req)
		for _, i := range []uint16{0, 1, 3} {
			rm.AddPayload(mk(dbft.PrepareResponseType, 5, i, 1, consensus.NewPrepareResponse(req.Hash())))
		}
		rp := mk(dbft.RecoveryMessageType, 5, uint16(sender), 1, rm)
		reb := rm.GetPrepareRequest(rp, nil, 2)
		w(pRow{K: "recovery", Obj: "request", Field: "direct", N: sender, Ok: reb != nil, Same: reb != nil && reb.Hash() == req.Hash()})
		resps := rm.GetPrepareResponses(rp, nil)
		all := len(resps) == 3
		for _, r := range resps {
			if r.GetPrepareResponse().PreparationHash() != req.Hash() {
				all = false
			}
		}
		w(pRow{K: "recovery", Obj: "responses", Field: "direct", N: sender, Ok: len(resps) == 3, Same: all})
		// the same after the wire
		d, err, pn := decPayload(encPayload(rp))
		if err == nil && !pn {
			rm2 := d.GetRecoveryMessage()
			reb2 := rm2.GetPrepareRequest(d, nil, 2)
			w(pRow{K: "recovery", Obj: "request", Field: "decoded", N: sender, Ok: reb2 != nil, Same: reb2 != nil && reb2.Hash() == req.Hash()})
			resps2 := rm2.GetPrepareResponses(d, nil)
			all2 := len(resps2) == 3
			for _, r := range resps2 {
				if r.GetPrepareResponse().PreparationHash() != req.Hash() {
					all2 = false
				}
			}
			w(pRow{K: "recovery", Obj: "responses", Field: "decoded", N: sender, Ok: len(resps2) == 3, Same: all2})
		} else {
			w(pRow{K: "recovery", Obj: "request", Field: "decoded", N: sender, Ok: false, Panic: pn})
		}
	}
	// blocks
	nb := func(ts uint64, idx uint32, prev U, nonce uint64, tx []U) dbft.Block[U] {
		b := consensus.NewBlock(ts, idx, prev, nonce, tx)
		tl := make([]dbft.Transaction[U], len(tx))
		for i := range tx {
			t := consensus.Tx64(uint64(i + 1))
			tl[i] = &t
		}
		b.SetTransactions(tl)
		return b
	}
	bb := nb(7*sec, 5, h256(0), 42, txs)
	bv := map[string]dbft.Block[U]{
		"index": nb(7*sec, 6, h256(0), 42, txs), "prev": nb(7*sec, 5, h256(8), 42, txs), "timestamp": nb(8*sec, 5, h256(0), 42, txs),
		"nonce": nb(7*sec, 5, h256(0), 43, txs), "txs-drop": nb(7*sec, 5, h256(0), 42, txs[:2]),
		"txs-order": nb(7*sec, 5, h256(0), 42, []U{txs[2], txs[1], txs[0]}),
	}
	w(pRow{K: "mut", Obj: "block", Field: "none", Same: bb.Hash() == nb(7*sec, 5, h256(0), 42, txs).Hash()})
	for f, b := range bv {
		w(pRow{K: "mut", Obj: "block", Field: f, Same: bb.Hash() == b.Hash()})
	}
	k1, p1 := crypto.Generate(rand.Reader)
	k2, p2 := crypto.Generate(rand.Reader)
	h0 := bb.Hash()
	_ = bb.Sign(k1)
	w(pRow{K: "mut", Obj: "block", Field: "own-signature", Same: h0 == bb.Hash()})
	// signatures verify only under the signer's key for the signed data
	other := bv["nonce"]
	sig := bb.Signature()
	w(pRow{K: "sig", Obj: "block", Field: "same-key-same-data", Ok: bb.Verify(p1, sig) == nil})
	w(pRow{K: "sig", Obj: "block", Field: "other-key", Ok: bb.Verify(p2, sig) == nil})
	w(pRow{K: "sig", Obj: "block", Field: "other-data", Ok: other.Verify(p1, sig) == nil})
	_ = other.Sign(k2)
	w(pRow{K: "sig", Obj: "block", Field: "other-key-other-data", Ok: bb.Verify(p1, other.Signature()) == nil})
	bad := append([]byte(nil), sig...)
	bad[10] ^= 1
	w(pRow{K: "sig", Obj: "block", Field: "flipped-bit", Ok: bb.Verify(p1, bad) == nil})
	// ... at the level of the key pair itself: data of every length class (shorter than, exactly, longer than one SHA-256 block
	// output), and against data RELATED to the signed data (its digest, its double digest, an extension, a truncation, a
	// neighbour of the same length): a signature must verify for the signed bytes only
	kp0, pp := crypto.Generate(rand.Reader)
	kp := kp0.(interface{ Sign(msg []byte) ([]byte, error) })
	for _, ln := range []int{0, 1, 20, 31, 32, 33, 64, 65, 200} {
		data := make([]byte, ln)
		for i := range data {
			data[i] = byte(7*i + ln)
		}
		sg, err := kp.Sign(data)
		if err != nil {
			w(pRow{K: "sig", Obj: "raw", Field: "same-key-same-data", Ok: false, N: ln})
			continue
		}
		ver := func(field string, msg []byte) {
			w(pRow{K: "sig", Obj: "raw", Field: field, Ok: pp.(interface{ Verify(msg, sig []byte) error }).Verify(msg, sg) == nil, N: ln})
		}
		ver("same-key-same-data", data)
		d1 := sha256.Sum256(data)
		d2 := sha256.Sum256(d1[:])
		ver("digest-of-data", d1[:])
		ver("double-digest-of-data", d2[:])
		ver("extended-data", append(append([]byte(nil), data...), 0))
		if ln > 0 {
			ver("truncated-data", data[:ln-1])
			nb := append([]byte(nil), data...)
			nb[ln/2] ^= 0x80
			ver("neighbour-data", nb)
		}
		// and the other direction: a signature over the digest must not verify for the data
		sd, _ := kp.Sign(d1[:])
		w(pRow{K: "sig", Obj: "raw", Field: "signature-over-digest", Ok: pp.(interface{ Verify(msg, sig []byte) error }).Verify(data, sd) == nil, N: ln})
	}
	// merkle root: any leaf or order change
	leaves := []U{h256(11), h256(12), h256(13), h256(14), h256(15)}
	root := func(l []U) U { return merkle.NewMerkleTree(l...).Root().Hash }
	for n := 1; n <= len(leaves); n++ {
		l := leaves[:n]
		r0 := root(l)
		for i := 0; i < n; i++ {
			m := append([]U(nil), l...)
			m[i] = h256(99)
			w(pRow{K: "merkle", Obj: "leaf-change", Field: "replace", N: n*10 + i, Same: r0 == root(m)})
			for j := i + 1; j < n; j++ {
				m2 := append([]U(nil), l...)
				m2[i], m2[j] = m2[j], m2[i]
				w(pRow{K: "merkle", Obj: "order-change", Field: "swap", N: n*100 + i*10 + j, Same: r0 == root(m2)})
			}
		}
		if n > 1 {
			w(pRow{K: "merkle", Obj: "leaf-change", Field: "drop-last", N: n, Same: r0 == root(l[:n-1])})
		}
		w(pRow{K: "merkle", Obj: "leaf-change", Field: "dup-last", N: n, Same: r0 == root(append(append([]U(nil), l...), l[n-1]))})
	}
}
