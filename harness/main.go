package main

import (
	"flag"
	"fmt"
	"os"
)

func main() {
	if len(os.Args) < 2 {
		fmt.Fprintln(os.Stderr, "usage: vh <driver> [flags]")
		os.Exit(2)
	}
	drv := os.Args[1]
	fs := flag.NewFlagSet(drv, flag.ExitOnError)
	seed := fs.Int64("seed", 1, "seed")
	runs := fs.Int("runs", 10, "number of runs (script driver: 0 = all)")
	from := fs.Int("from", 0, "first run index")
	steps := fs.Int("steps", 400, "adversary steps per run")
	heights := fs.Int("heights", 3, "heights to decide (timed drivers)")
	dyn := fs.Bool("dyn", false, "sync driver: dynamic block time extension in every run")
	full := fs.Bool("full", false, "quorum driver: every validator count")
	lo := fs.Int("lo", 1, "quorum driver: first validator count")
	hi := fs.Int("hi", 65535, "quorum driver: last validator count")
	in := fs.String("in", "", "script driver: file with one JSON behaviour per line")
	pair := fs.Int64("pair", 0, "script driver: run every behaviour twice, the second clock ahead by this much, and write Pair lines (C14)")
	unit := fs.Int("unit", 4, "timer driver with -in: milliseconds per clock unit of the specification's schedules")
	out := fs.String("out", "/dev/stdout", "ndjson trace file")
	_ = fs.Parse(os.Args[2:])
	w := NewTraceWriter(*out)
	defer w.Close()
	switch drv {
	case "async":
		for r := *from; r < *from+*runs; r++ {
			runAsync(w, *seed, r, *steps)
		}
	case "sync":
		for r := *from; r < *from+*runs; r++ {
			runSync(w, *seed, r, *heights, *dyn)
		}
	case "faults":
		for r := *from; r < *from+*runs; r++ {
			runFaults(w, *seed, r, *heights)
		}
	case "proposal":
		for r := *from; r < *from+*runs; r++ {
			runProposal(w, *seed, r, *heights)
		}
	case "shift":
		for r := *from; r < *from+*runs; r++ {
			runShift(w, *seed, r, *steps)
		}
	case "timer":
		if *in != "" {
			runTimerScript(w, *in, *from, *unit)
		} else {
			runTimer(w, *seed, *from, *runs, *steps)
		}
	case "payload":
		runPayload(w, *seed, *full)
	case "script":
		runScript(w, *in, *from, *runs, *pair)
	case "quorum":
		runQuorum(w, *full, *lo, *hi)
		if *lo == 1 {
			runQuorumSeq(w)
		}
	case "open":
		for r := *from; r < *from+*runs; r++ {
			runOpen(w, *seed, r, *steps)
		}
	default:
		fmt.Fprintln(os.Stderr, "unknown driver", drv)
		os.Exit(2)
	}
}
