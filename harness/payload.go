package main

// Abstract payload / block / transaction implementation behind the library's
// interfaces. Hashes are canonical strings of the content, so "hash binds
// content" holds by construction and every value maps 1:1 to a TLA+ record.

import (
	"crypto/sha256"
	"encoding/hex"
	"fmt"
	"strconv"
	"strings"

	"github.com/nspcc-dev/dbft"
)

// H is the hash type: a canonical, parseable description of the content.
type H string

func (h H) String() string { return string(h) }

// Key is both public and private key of validator identity ID.
type Key struct{ ID int }

// Tx is an abstract transaction.
type Tx string

func (t Tx) Hash() H { return H(t) }

func short(s H) string {
	if s == "" {
		return "genesis"
	}
	if strings.HasPrefix(string(s), "T:") { // opaque tip ids used by scripted / open drivers
		return string(s)
	}
	d := sha256.Sum256([]byte(s))
	return hex.EncodeToString(d[:6])
}

// BlockRec is the JSON / TLA+ form of a block or pre-block identity.
type BlockRec struct {
	H     uint32   `json:"h"`
	Prev  string   `json:"prev"`
	Ts    uint64   `json:"ts"`
	Nonce string   `json:"nonce"`
	Txs   []string `json:"txs"`
}

var noBlockRec = BlockRec{Txs: []string{}}

func hs(hh []H) []string {
	r := make([]string, len(hh))
	for i, h := range hh {
		r[i] = string(h)
	}
	return r
}

func (r BlockRec) hash(pfx string) H {
	return H(fmt.Sprintf("%s|%d|%s|%d|%s|%s", pfx, r.H, r.Prev, r.Ts, r.Nonce, strings.Join(r.Txs, ",")))
}

func parseBlockRec(h H) (BlockRec, bool) {
	p := strings.Split(string(h), "|")
	if len(p) != 6 || (p[0] != "B" && p[0] != "PB") {
		return noBlockRec, false
	}
	hh, _ := strconv.ParseUint(p[1], 10, 32)
	ts, _ := strconv.ParseUint(p[3], 10, 64)
	txs := []string{}
	if p[5] != "" {
		txs = strings.Split(p[5], ",")
	}
	return BlockRec{H: uint32(hh), Prev: p[2], Ts: ts, Nonce: p[4], Txs: txs}, true
}

// Block implements dbft.Block[H].
type Block struct {
	Rec  BlockRec
	Amev bool // final block of an anti-MEV height
	txs  []dbft.Transaction[H]
	sig  []byte
	node *Node // for callback logging
}

func (b *Block) Hash() H       { return b.Rec.hash("B") }
func (b *Block) PrevHash() H   { return H(b.Rec.Prev) }
func (b *Block) MerkleRoot() H { return H(strings.Join(b.Rec.Txs, ",")) }
func (b *Block) Index() uint32 { return b.Rec.H }
func (b *Block) Signature() []byte {
	return b.sig
}
func (b *Block) Sign(key dbft.PrivateKey) error {
	k := key.(*Key)
	if b.node != nil {
		b.node.cb(CbRec{K: "Sign", Key: k.ID})
	}
	b.sig = MakeSig(k.ID, b.Hash())
	return nil
}
func (b *Block) Verify(key dbft.PublicKey, sign []byte) error {
	k := key.(*Key)
	if string(sign) == string(MakeSig(k.ID, b.Hash())) {
		return nil
	}
	return fmt.Errorf("bad signature")
}
func (b *Block) Transactions() []dbft.Transaction[H]     { return b.txs }
func (b *Block) SetTransactions(t []dbft.Transaction[H]) { b.txs = t }

func MakeSig(id int, bh H) []byte  { return []byte(fmt.Sprintf("S|%d|%s", id, bh)) }
func MakeData(id int, bh H) []byte { return []byte(fmt.Sprintf("D|%d|%s", id, bh)) }

// SigRec is the JSON form of a commit signature / pre-commit data.
type SigRec struct {
	S int      `json:"s"`
	B BlockRec `json:"b"`
}

func parseSig(sig []byte) SigRec {
	p := strings.SplitN(string(sig), "|", 3)
	if len(p) != 3 || (p[0] != "S" && p[0] != "D") {
		return SigRec{S: -1, B: BlockRec{Nonce: "junk:" + string(sig), Txs: []string{}}}
	}
	id, _ := strconv.Atoi(p[1])
	br, ok := parseBlockRec(H(p[2]))
	if !ok {
		return SigRec{S: -1, B: BlockRec{Nonce: "junk:" + string(sig), Txs: []string{}}}
	}
	return SigRec{S: id, B: br}
}

// PreBlock implements dbft.PreBlock[H].
type PreBlock struct {
	Rec  BlockRec
	txs  []dbft.Transaction[H]
	data []byte
	node *Node
}

func (b *PreBlock) Hash() H      { return b.Rec.hash("PB") }
func (b *PreBlock) Data() []byte { return b.data }
func (b *PreBlock) SetData(key dbft.PrivateKey) error {
	k := key.(*Key)
	if b.node != nil {
		b.node.cb(CbRec{K: "SetData", Key: k.ID})
	}
	b.data = MakeData(k.ID, b.Hash())
	return nil
}
func (b *PreBlock) Verify(key dbft.PublicKey, data []byte) error {
	k := key.(*Key)
	if string(data) == string(MakeData(k.ID, b.Hash())) {
		return nil
	}
	return fmt.Errorf("bad pre-commit data")
}
func (b *PreBlock) Transactions() []dbft.Transaction[H]     { return b.txs }
func (b *PreBlock) SetTransactions(t []dbft.Transaction[H]) { b.txs = t }

// ---------------------------------------------------------------------------

// ReqHash is the JSON / TLA+ form of a PrepareRequest payload hash.
type ReqHash struct {
	H     uint32   `json:"h"`
	V     int      `json:"v"`
	From  int      `json:"from"`
	Ts    uint64   `json:"ts"`
	Nonce string   `json:"nonce"`
	Txs   []string `json:"txs"`
}

func (r ReqHash) hash() H {
	return H(fmt.Sprintf("R|%d|%d|%d|%d|%s|%s", r.H, r.V, r.From, r.Ts, r.Nonce, strings.Join(r.Txs, ",")))
}

func parseReqHash(h H) ReqHash {
	p := strings.Split(string(h), "|")
	if len(p) != 7 || p[0] != "R" {
		return ReqHash{Nonce: "junk:" + string(h), Txs: []string{}}
	}
	hh, _ := strconv.ParseUint(p[1], 10, 32)
	v, _ := strconv.Atoi(p[2])
	f, _ := strconv.Atoi(p[3])
	ts, _ := strconv.ParseUint(p[4], 10, 64)
	txs := []string{}
	if p[6] != "" {
		txs = strings.Split(p[6], ",")
	}
	return ReqHash{H: uint32(hh), V: v, From: f, Ts: ts, Nonce: p[5], Txs: txs}
}

// Bodies.
type (
	ReqBody struct {
		Ts     uint64
		NonceV uint64
		Txs    []H
	}
	RespBody struct{ PH H }
	CVBody   struct {
		NV  byte
		Rsn dbft.ChangeViewReason
		Ts  uint64
	}
	CommitBody    struct{ Sig []byte }
	PreCommitBody struct{ D []byte }
	RReqBody      struct{ Ts uint64 }
	RMsgBody      struct {
		Prep, CVs, PCs, CMs []*Payload
		order               func(n int) []int // permutation source for the getters (nil = index order)
		note                func(which string, perm []int)
	}
)

func (b *ReqBody) Timestamp() uint64            { return b.Ts + uint64(curOrigin) } // absolute for the library
func (b *ReqBody) Nonce() uint64                { return b.NonceV }
func (b *ReqBody) TransactionHashes() []H       { return b.Txs }
func (b *RespBody) PreparationHash() H          { return b.PH }
func (b *CVBody) NewViewNumber() byte           { return b.NV }
func (b *CVBody) Reason() dbft.ChangeViewReason { return b.Rsn }
func (b *CommitBody) Signature() []byte         { return b.Sig }
func (b *PreCommitBody) Data() []byte           { return b.D }
func (b *RReqBody) Timestamp() uint64           { return b.Ts + uint64(curOrigin) }

// Payload implements dbft.ConsensusPayload[H].
type Payload struct {
	T    dbft.MessageType
	Ht   uint32
	V    byte
	From uint16
	Body any
}

func (p *Payload) ViewNumber() byte           { return p.V }
func (p *Payload) Type() dbft.MessageType     { return p.T }
func (p *Payload) Payload() any               { return p.Body }
func (p *Payload) ValidatorIndex() uint16     { return p.From }
func (p *Payload) SetValidatorIndex(i uint16) { p.From = i }
func (p *Payload) Height() uint32             { return p.Ht }
func (p *Payload) GetChangeView() dbft.ChangeView {
	b, _ := p.Body.(*CVBody)
	if b == nil {
		return nil
	}
	return b
}
func (p *Payload) GetPrepareRequest() dbft.PrepareRequest[H] {
	b, _ := p.Body.(*ReqBody)
	if b == nil {
		return nil
	}
	return b
}
func (p *Payload) GetPrepareResponse() dbft.PrepareResponse[H] {
	b, _ := p.Body.(*RespBody)
	if b == nil {
		return nil
	}
	return b
}
func (p *Payload) GetPreCommit() dbft.PreCommit {
	b, _ := p.Body.(*PreCommitBody)
	if b == nil {
		return nil
	}
	return b
}
func (p *Payload) GetCommit() dbft.Commit {
	b, _ := p.Body.(*CommitBody)
	if b == nil {
		return nil
	}
	return b
}
func (p *Payload) GetRecoveryRequest() dbft.RecoveryRequest {
	b, _ := p.Body.(*RReqBody)
	if b == nil {
		return nil
	}
	return b
}
func (p *Payload) GetRecoveryMessage() dbft.RecoveryMessage[H] {
	b, _ := p.Body.(*RMsgBody)
	if b == nil {
		return nil
	}
	return b
}

func (p *Payload) reqHash() ReqHash {
	b := p.Body.(*ReqBody)
	return ReqHash{H: p.Ht, V: int(p.V), From: int(p.From), Ts: b.Ts, Nonce: strconv.FormatUint(b.NonceV, 10), Txs: hs(b.Txs)}
}

// Hash is a canonical string of the whole content.
func (p *Payload) Hash() H {
	switch b := p.Body.(type) {
	case *ReqBody:
		return p.reqHash().hash()
	default:
		_ = b
		return H(p.Key())
	}
}

// Key is a canonical string of the whole payload (all kinds).
func (p *Payload) Key() string {
	hd := fmt.Sprintf("%d|%d|%d|%d|", p.T, p.Ht, p.V, p.From)
	switch b := p.Body.(type) {
	case *ReqBody:
		return hd + string(p.reqHash().hash())
	case *RespBody:
		return hd + string(b.PH)
	case *CVBody:
		return hd + fmt.Sprintf("%d|%d|%d", b.NV, b.Rsn, b.Ts)
	case *CommitBody:
		return hd + string(b.Sig)
	case *PreCommitBody:
		return hd + string(b.D)
	case *RReqBody:
		return hd + fmt.Sprintf("%d", b.Ts)
	case *RMsgBody:
		var sb strings.Builder
		sb.WriteString(hd)
		for _, l := range [][]*Payload{b.Prep, b.CVs, b.PCs, b.CMs} {
			sb.WriteString("[")
			for _, q := range l {
				sb.WriteString(q.Key())
				sb.WriteString(";")
			}
			sb.WriteString("]")
		}
		return sb.String()
	case nil:
		return hd + "nil"
	}
	return hd + "?"
}

func (p *Payload) clone() *Payload {
	q := *p
	return &q
}

// RecoveryMessage interface.
func (b *RMsgBody) AddPayload(p dbft.ConsensusPayload[H]) {
	q := p.(*Payload).clone()
	switch q.T {
	case dbft.PrepareRequestType, dbft.PrepareResponseType:
		b.Prep = append(b.Prep, q)
	case dbft.ChangeViewType:
		b.CVs = append(b.CVs, q)
	case dbft.PreCommitType:
		b.PCs = append(b.PCs, q)
	case dbft.CommitType:
		b.CMs = append(b.CMs, q)
	}
}
func (b *RMsgBody) perm(which string, l []*Payload) []dbft.ConsensusPayload[H] {
	r := make([]dbft.ConsensusPayload[H], 0, len(l))
	var pm []int
	if b.order == nil {
		for i := range l {
			pm = append(pm, i)
		}
	} else {
		pm = b.order(len(l))
	}
	for _, i := range pm {
		r = append(r, l[i].clone())
	}
	if b.note != nil && len(l) > 0 {
		b.note(which, pm)
	}
	return r
}
func (b *RMsgBody) GetPrepareRequest(p dbft.ConsensusPayload[H], _ []dbft.PublicKey, primary uint16) dbft.ConsensusPayload[H] {
	for _, q := range b.Prep {
		if q.T == dbft.PrepareRequestType {
			return q.clone()
		}
	}
	return nil
}
func (b *RMsgBody) GetPrepareResponses(p dbft.ConsensusPayload[H], _ []dbft.PublicKey) []dbft.ConsensusPayload[H] {
	var l []*Payload
	for _, q := range b.Prep {
		if q.T == dbft.PrepareResponseType {
			l = append(l, q)
		}
	}
	return b.perm("resp", l)
}
func (b *RMsgBody) GetChangeViews(p dbft.ConsensusPayload[H], _ []dbft.PublicKey) []dbft.ConsensusPayload[H] {
	return b.perm("cvs", b.CVs)
}
func (b *RMsgBody) GetPreCommits(p dbft.ConsensusPayload[H], _ []dbft.PublicKey) []dbft.ConsensusPayload[H] {
	return b.perm("pcs", b.PCs)
}
func (b *RMsgBody) GetCommits(p dbft.ConsensusPayload[H], _ []dbft.PublicKey) []dbft.ConsensusPayload[H] {
	return b.perm("cms", b.CMs)
}
func (b *RMsgBody) PreparationHash() *H {
	for _, q := range b.Prep {
		if q.T == dbft.PrepareRequestType {
			h := q.Hash()
			return &h
		}
	}
	for _, q := range b.Prep {
		if q.T == dbft.PrepareResponseType {
			h := q.Body.(*RespBody).PH
			return &h
		}
	}
	return nil
}

// ---------------------------------------------------------------------------
// JSON form of a payload.

type PRec struct {
	T      string    `json:"t"`
	H      uint32    `json:"h"`
	V      int       `json:"v"`
	From   int       `json:"from"`
	Ts     *uint64   `json:"ts,omitempty"`
	Nonce  *string   `json:"nonce,omitempty"`
	Txs    *[]string `json:"txs,omitempty"`
	PH     *ReqHash  `json:"ph,omitempty"`
	NV     *int      `json:"nv,omitempty"`
	Reason *int      `json:"reason,omitempty"`
	S      *int      `json:"s,omitempty"`
	B      *BlockRec `json:"b,omitempty"`
	Prep   *[]PRec   `json:"prep,omitempty"`
	CVs    *[]PRec   `json:"cvs,omitempty"`
	PCs    *[]PRec   `json:"pcs,omitempty"`
	CMs    *[]PRec   `json:"cms,omitempty"`
}

func typeName(t dbft.MessageType) string {
	switch t {
	case dbft.ChangeViewType:
		return "ChangeView"
	case dbft.PrepareRequestType:
		return "PrepareRequest"
	case dbft.PrepareResponseType:
		return "PrepareResponse"
	case dbft.CommitType:
		return "Commit"
	case dbft.PreCommitType:
		return "PreCommit"
	case dbft.RecoveryRequestType:
		return "RecoveryRequest"
	case dbft.RecoveryMessageType:
		return "RecoveryMessage"
	}
	return fmt.Sprintf("Type%d", t)
}

func recs(l []*Payload) *[]PRec {
	r := make([]PRec, len(l))
	for i, q := range l {
		r[i] = q.Rec()
	}
	return &r
}

func (p *Payload) Rec() PRec {
	r := PRec{T: typeName(p.T), H: p.Ht, V: int(p.V), From: int(p.From)}
	switch b := p.Body.(type) {
	case *ReqBody:
		rh := p.reqHash()
		r.Ts, r.Nonce, r.Txs = &rh.Ts, &rh.Nonce, &rh.Txs
	case *RespBody:
		ph := parseReqHash(b.PH)
		r.PH = &ph
	case *CVBody:
		nv, rs := int(b.NV), int(b.Rsn)
		r.NV, r.Reason, r.Ts = &nv, &rs, &b.Ts
	case *CommitBody:
		s := parseSig(b.Sig)
		r.S, r.B = &s.S, &s.B
	case *PreCommitBody:
		s := parseSig(b.D)
		r.S, r.B = &s.S, &s.B
	case *RReqBody:
		r.Ts = &b.Ts
	case *RMsgBody:
		r.Prep, r.CVs, r.PCs, r.CMs = recs(b.Prep), recs(b.CVs), recs(b.PCs), recs(b.CMs)
	case nil:
		r.T = "Nil" + r.T
	}
	return r
}

func itoa(v uint64) string { return strconv.FormatUint(v, 10) }
