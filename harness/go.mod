module github.com/nspcc-dev/dbft/verifharness

go 1.24

require (
	github.com/nspcc-dev/dbft v0.0.0
	go.uber.org/zap v1.27.0
)

require go.uber.org/multierr v1.10.0 // indirect

replace github.com/nspcc-dev/dbft => /repo
