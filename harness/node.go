package main

// One real dbft.DBFT instance with a virtual timer, an application ledger,
// scripted callbacks, and the projection of its state into the observation
// vocabulary shared with the TLA+ specification (spec/DbftTrace.tla).

import (
	"fmt"
	"sort"
	"strconv"
	"time"

	"github.com/nspcc-dev/dbft"
	"go.uber.org/zap"
	"go.uber.org/zap/zapcore"
)

// Clock is the virtual time source shared by the nodes of a run.
// Clock: the injected clock reads Origin + Now nanoseconds since the Unix epoch. Everything the harness logs, stores in payloads
// and computes with is relative to Origin (so that trace values stay small); the library only ever sees absolute instants. An
// Origin far beyond the machine's date makes a dependency on the wall clock visible that an epoch in the past hides (C14).
type Clock struct {
	Now    int64
	Origin int64
}

func (c *Clock) T() time.Time { return time.Unix(0, c.Origin+c.Now) }

// FarOrigin: about two centuries after 1970, a multiple of every timestamp increment the drivers configure (1, 7, 64, 1000).
const FarOrigin = int64(200*365*24*3600*1000000000) / 56000 * 56000

// curOrigin is the Origin of the node whose library call is in progress (payload bodies present absolute timestamps to it).
var curOrigin int64

// rel turns an absolute instant handed out by the library into the harness' relative one (0 stays 0: "not set").
func rel(t uint64, origin int64) uint64 {
	if origin > 0 && t >= uint64(origin) {
		return t - uint64(origin)
	}
	return t
}

// VTimer implements dbft.Timer on virtual time.
type VTimer struct {
	clk   *Clock
	node  *Node
	Armed bool
	H     uint32
	V     byte
	Due   int64
	LastD int64
	Ext   int64
}

func (t *VTimer) Now() time.Time { return t.clk.T() }
func (t *VTimer) Reset(h uint32, v byte, d time.Duration) {
	t.Armed, t.H, t.V, t.LastD, t.Ext = true, h, v, int64(d), 0
	t.Due = t.clk.Now + int64(d)
	t.node.cb(CbRec{K: "TimerReset", H: u32p(h), V: intp(int(v)), D: i64p(int64(d))})
}
func (t *VTimer) Extend(d time.Duration) {
	t.Due += int64(d)
	t.Ext += int64(d)
	t.node.cb(CbRec{K: "TimerExtend", D: i64p(int64(d))})
}
func (t *VTimer) Height() uint32      { return t.H }
func (t *VTimer) View() byte          { return t.V }
func (t *VTimer) C() <-chan time.Time { return nil }

func u32p(v uint32) *uint32 { return &v }
func intp(v int) *int       { return &v }
func i64p(v int64) *int64   { return &v }
func boolp(v bool) *bool    { return &v }

// NodeCfg is the static configuration of a node.
type NodeCfg struct {
	Tpb    int64  `json:"tpb"`
	MaxTpb int64  `json:"maxTpb"` // 0 = extension off
	Inc    uint64 `json:"inc"`
	AmevH  int64  `json:"amevH"` // -1 = off
	Watch  bool   `json:"watch"`
}

// World is what a node needs from its environment.
type World interface {
	ValidatorsAt(h uint32) []int // key ids of the validators deciding height h
}

// CbRec is one callback made by the library during an API call.
type CbRec struct {
	K      string    `json:"k"`
	M      *PRec     `json:"m,omitempty"`
	At     *PState   `json:"at,omitempty"`
	H      *uint32   `json:"h,omitempty"`
	V      *int      `json:"v,omitempty"`
	D      *int64    `json:"d,omitempty"`
	Block  *BlockRec `json:"block,omitempty"`
	Ok     *bool     `json:"ok,omitempty"`
	Hashes []string  `json:"hashes,omitempty"`
	Key    int       `json:"key,omitempty"`
	Tx     string    `json:"tx,omitempty"`
	Pool   *[]string `json:"pool,omitempty"`
	Which  string    `json:"which,omitempty"`
	Perm   []int     `json:"perm,omitempty"`
	Body   *[]string `json:"body,omitempty"` // ProcessBlock / ProcessPreBlock: hashes of the transactions the library put into the block ("nil" = none)
}

// Node wraps one real DBFT instance.
type Node struct {
	ID    int
	Key   *Key
	Cfg   NodeCfg
	W     World
	Clk   *Clock
	Timer *VTimer
	D     *dbft.DBFT[H]

	cfgDirty   bool
	initLedger *LedgerRec // the ledger given to the library at the last Start / Reset
	// application ledger
	Height  uint32
	TipHash H
	TipTs   uint64

	// application behaviour
	Pool          []Tx
	Known         map[H]Tx
	BadTx         map[H]bool // transactions that make VerifyBlock fail
	RejectPayload func(p *Payload) bool
	FailPreBlock  int // fail the next k ProcessPreBlock calls
	FailBlock     int // fail the next k ProcessBlock calls (anti-MEV heights only)
	NilBlock      bool
	LaxVerify     bool // the verification callbacks do not check that the block carries the transactions its header names
	RMsgOrder     func(n int) []int
	Requested     []H // every hash asked for through RequestTx since the last Start/Reset

	// observation
	cbs       []CbRec
	Accepted  map[uint32][]*Block
	notEarly  map[string]bool
	nilEarly  map[string]bool
	nilSeen   map[[2]uint32]bool
	verified  map[string]bool // blocks / pre-blocks the verification callback accepted in this (h, v)
	started   bool
	inCall    bool
	Broadcast func(n *Node, p *Payload) // network hook
	nAPI      int
}

func (n *Node) cb(c CbRec) { n.cbs = append(n.cbs, c) }

func newLogger() *zap.Logger {
	return zap.New(zapcore.NewNopCore(), zap.WithFatalHook(zapcore.WriteThenPanic))
}

// NewNode builds the node and its DBFT instance (not started).
func NewNode(id int, cfg NodeCfg, w World, clk *Clock) *Node {
	n := &Node{ID: id, Key: &Key{ID: id}, Cfg: cfg, W: w, Clk: clk,
		Known: map[H]Tx{}, BadTx: map[H]bool{}, Accepted: map[uint32][]*Block{},
		notEarly: map[string]bool{}, nilEarly: map[string]bool{}, nilSeen: map[[2]uint32]bool{}, verified: map[string]bool{}}
	n.Timer = &VTimer{clk: clk, node: n}
	n.build()
	return n
}

func (n *Node) pubs(ids []int) []dbft.PublicKey {
	r := make([]dbft.PublicKey, len(ids))
	for i, id := range ids {
		r[i] = &Key{ID: id}
	}
	return r
}

func (n *Node) verifyPayload(kind string) func(p dbft.ConsensusPayload[H]) error {
	return func(p dbft.ConsensusPayload[H]) error {
		q := p.(*Payload)
		ok := n.RejectPayload == nil || !n.RejectPayload(q)
		// "early" = stored at a moment when the library cannot build the header to verify against
		// (no proposal stored yet, or the application's NewBlockFromContext yields no block)
		if ok && (kind == "Commit" || kind == "PreCommit") && n.D.RequestSentOrReceived() && q.V == n.D.ViewNumber && !n.NilBlock {
			n.notEarly[q.Key()] = true
		}
		if ok && (kind == "Commit" || kind == "PreCommit") && n.D.RequestSentOrReceived() && q.V == n.D.ViewNumber && n.NilBlock {
			n.nilEarly[q.Key()] = true // the proposal was there, but the application's NewBlockFromContext yielded no block
		}
		r := q.Rec()
		n.cb(CbRec{K: "Verify" + kind, M: &r, Ok: boolp(ok)})
		if !ok {
			return fmt.Errorf("rejected by the application")
		}
		return nil
	}
}

func (n *Node) build() {
	opts := []func(*dbft.Config[H]){
		dbft.WithTimer[H](n.Timer),
		dbft.WithLogger[H](newLogger()),
		dbft.WithTimePerBlock[H](func() time.Duration { return time.Duration(n.Cfg.Tpb) }),
		dbft.WithTimestampIncrement[H](n.Cfg.Inc),
		dbft.WithAntiMEVExtensionEnablingHeight[H](n.Cfg.AmevH),
		dbft.WithGetKeyPair[H](func(pubs []dbft.PublicKey) (int, dbft.PrivateKey, dbft.PublicKey) {
			for i, p := range pubs {
				if p.(*Key).ID == n.ID {
					return i, n.Key, n.Key
				}
			}
			return -1, nil, nil
		}),
		dbft.WithWatchOnly[H](func() bool { return n.Cfg.Watch }),
		dbft.WithCurrentHeight[H](func() uint32 { return n.Height }),
		dbft.WithCurrentBlockHash[H](func() H { return n.TipHash }),
		dbft.WithGetValidators[H](func(...dbft.Transaction[H]) []dbft.PublicKey {
			return n.pubs(n.W.ValidatorsAt(n.Height + 1))
		}),
		dbft.WithGetTx[H](func(h H) dbft.Transaction[H] {
			tx, ok := n.Known[h]
			n.cb(CbRec{K: "GetTx", Tx: string(h), Ok: boolp(ok)})
			if !ok {
				return nil
			}
			return tx
		}),
		dbft.WithGetVerified[H](func() []dbft.Transaction[H] {
			r := make([]dbft.Transaction[H], len(n.Pool))
			hh := make([]string, len(n.Pool))
			for i, t := range n.Pool {
				r[i] = t
				hh[i] = string(t)
			}
			n.cb(CbRec{K: "GetVerified", Pool: &hh})
			return r
		}),
		dbft.WithRequestTx[H](func(h ...H) {
			n.cb(CbRec{K: "RequestTx", Hashes: hs(h)})
			for _, x := range h {
				if indexOfH(n.Requested, x) < 0 {
					n.Requested = append(n.Requested, x)
				}
			}
		}),
		dbft.WithStopTxFlow[H](func() { n.cb(CbRec{K: "StopTxFlow", At: n.Proj(nil)}) }),
		dbft.WithVerifyBlock[H](func(b dbft.Block[H]) bool {
			ok := true
			rec := noBlockRec
			if bb, _ := b.(*Block); bb != nil {
				rec = bb.Rec
				for _, t := range bb.Rec.Txs {
					if n.BadTx[H(t)] {
						ok = false
					}
				}
				if !n.LaxVerify && !bodyComplete(bb.txs, bb.Rec.Txs) { // an application cannot verify a block some of whose transactions it was not given (a lax one does not look)
					ok = false
				}
				if ok {
					n.verified[string(bb.Hash())] = true
				}
			} else {
				ok = false
			}
			n.cb(CbRec{K: "VerifyBlock", Block: &rec, Ok: boolp(ok)})
			return ok
		}),
		dbft.WithBroadcast[H](func(m dbft.ConsensusPayload[H]) {
			p := m.(*Payload)
			r := p.Rec()
			n.cb(CbRec{K: "Broadcast", M: &r, At: n.Proj(nil)})
			if n.Broadcast != nil {
				n.Broadcast(n, p)
			}
		}),
		dbft.WithProcessBlock[H](func(b dbft.Block[H]) error {
			bb := b.(*Block)
			ok := true
			if n.FailBlock > 0 && n.D.Config.AntiMEVExtensionEnablingHeight >= 0 && uint32(n.D.Config.AntiMEVExtensionEnablingHeight) <= n.D.BlockIndex {
				n.FailBlock--
				ok = false
			}
			rec := bb.Rec
			n.cb(CbRec{K: "ProcessBlock", Block: &rec, Ok: boolp(ok), At: n.Proj(bb), Body: bodyOf(bb.txs)})
			if !ok {
				return fmt.Errorf("application refused the block")
			}
			n.Accepted[bb.Rec.H] = append(n.Accepted[bb.Rec.H], bb)
			return nil
		}),
		dbft.WithNewBlockFromContext[H](func(ctx *dbft.Context[H]) dbft.Block[H] {
			n.cb(CbRec{K: "NewBlockFromContext"})
			if n.NilBlock {
				n.nilSeen[[2]uint32{ctx.BlockIndex, uint32(ctx.ViewNumber)}] = true
				return nil
			}
			return &Block{Rec: ctxBlockRec(ctx), node: n}
		}),
		dbft.WithNewConsensusPayload[H](func(c *dbft.Context[H], t dbft.MessageType, msg any) dbft.ConsensusPayload[H] {
			var from uint16
			if c.MyIndex >= 0 {
				from = uint16(c.MyIndex)
			}
			if rm, ok := msg.(*RMsgBody); ok {
				rm.order = n.RMsgOrder
			}
			return &Payload{T: t, Ht: c.BlockIndex, V: c.ViewNumber, From: from, Body: msg}
		}),
		dbft.WithNewPrepareRequest[H](func(ts uint64, nonce uint64, txs []H) dbft.PrepareRequest[H] {
			ts = rel(ts, n.Clk.Origin)
			n.cb(CbRec{K: "NewPrepareRequest", Block: &BlockRec{Ts: ts, Nonce: strconv.FormatUint(nonce, 10), Txs: hs(txs)}})
			return &ReqBody{Ts: ts, NonceV: nonce, Txs: append([]H(nil), txs...)}
		}),
		dbft.WithNewPrepareResponse[H](func(h H) dbft.PrepareResponse[H] { return &RespBody{PH: h} }),
		dbft.WithNewChangeView[H](func(nv byte, r dbft.ChangeViewReason, ts uint64) dbft.ChangeView {
			return &CVBody{NV: nv, Rsn: r, Ts: rel(ts, n.Clk.Origin)}
		}),
		dbft.WithNewCommit[H](func(sig []byte) dbft.Commit { return &CommitBody{Sig: append([]byte(nil), sig...)} }),
		dbft.WithNewRecoveryRequest[H](func(ts uint64) dbft.RecoveryRequest { return &RReqBody{Ts: rel(ts, n.Clk.Origin)} }),
		dbft.WithNewRecoveryMessage[H](func() dbft.RecoveryMessage[H] { return &RMsgBody{} }),
		dbft.WithVerifyPrepareRequest[H](n.verifyPayload("PrepareRequest")),
		dbft.WithVerifyPrepareResponse[H](n.verifyPayload("PrepareResponse")),
		dbft.WithVerifyCommit[H](n.verifyPayload("Commit")),
		dbft.WithVerifyPreCommit[H](n.verifyPayload("PreCommit")),
	}
	if n.Cfg.MaxTpb > 0 {
		opts = append(opts,
			dbft.WithMaxTimePerBlock[H](func() time.Duration { return time.Duration(n.Cfg.MaxTpb) }),
			dbft.WithSubscribeForTxs[H](func() { n.cb(CbRec{K: "SubscribeForTxs"}) }))
	}
	if n.Cfg.AmevH >= 0 {
		opts = append(opts,
			dbft.WithNewPreBlockFromContext[H](func(ctx *dbft.Context[H]) dbft.PreBlock[H] {
				n.cb(CbRec{K: "NewPreBlockFromContext"})
				return &PreBlock{Rec: ctxBlockRec(ctx), node: n}
			}),
			dbft.WithNewPreCommit[H](func(d []byte) dbft.PreCommit { return &PreCommitBody{D: append([]byte(nil), d...)} }),
			dbft.WithVerifyPreBlock[H](func(b dbft.PreBlock[H]) bool {
				ok := true
				rec := noBlockRec
				if bb, _ := b.(*PreBlock); bb != nil {
					rec = bb.Rec
					for _, t := range bb.Rec.Txs {
						if n.BadTx[H(t)] {
							ok = false
						}
					}
					if !n.LaxVerify && !bodyComplete(bb.txs, bb.Rec.Txs) {
						ok = false
					}
					if ok {
						n.verified[string(bb.Hash())] = true
					}
				} else {
					ok = false
				}
				n.cb(CbRec{K: "VerifyPreBlock", Block: &rec, Ok: boolp(ok)})
				return ok
			}),
			dbft.WithProcessPreBlock[H](func(b dbft.PreBlock[H]) error {
				bb := b.(*PreBlock)
				ok := true
				if n.FailPreBlock > 0 {
					n.FailPreBlock--
					ok = false
				}
				rec := bb.Rec
				n.cb(CbRec{K: "ProcessPreBlock", Block: &rec, Ok: boolp(ok), At: n.ProjPre(bb), Body: bodyOf(bb.txs)})
				if !ok {
					return fmt.Errorf("application refused the pre-block")
				}
				return nil
			}))
	}
	d, err := dbft.New[H](opts...)
	if err != nil {
		panic(err)
	}
	n.D = d
	n.started = false
}

// bodyComplete: the block carries exactly the transactions its header names, in order.
func bodyComplete(txs []dbft.Transaction[H], hashes []string) bool {
	if len(txs) != len(hashes) {
		return false
	}
	for i, t := range txs {
		if t == nil || string(t.Hash()) != hashes[i] {
			return false
		}
	}
	return true
}

// bodyOf lists the transactions the library handed to SetTransactions, by hash.
func bodyOf(txs []dbft.Transaction[H]) *[]string {
	r := make([]string, len(txs))
	for i, t := range txs {
		if t == nil {
			r[i] = "nil"
		} else {
			r[i] = string(t.Hash())
		}
	}
	return &r
}

func ctxBlockRec(ctx *dbft.Context[H]) BlockRec {
	return BlockRec{H: ctx.BlockIndex, Prev: short(ctx.PrevHash), Ts: rel(ctx.Timestamp, curOrigin),
		Nonce: strconv.FormatUint(ctx.Nonce, 10), Txs: hs(ctx.TransactionHashes)}
}

// ---------------------------------------------------------------------------
// Projection.

type Slot struct {
	K      string    `json:"k"`
	V      *int      `json:"v,omitempty"`
	PH     *ReqHash  `json:"ph,omitempty"`
	S      *int      `json:"s,omitempty"`
	B      *BlockRec `json:"b,omitempty"`
	Valid  *bool     `json:"valid,omitempty"`
	Early  *bool     `json:"early,omitempty"`
	ENil   *bool     `json:"enil,omitempty"` // stored while the proposal was known but NewBlockFromContext returned nothing
	NV     *int      `json:"nv,omitempty"`
	Ts     *uint64   `json:"ts,omitempty"`
	Reason *int      `json:"reason,omitempty"`
	H      *uint32   `json:"h,omitempty"`
}

type InboxRec struct {
	H         uint32 `json:"h"`
	Prepare   []PRec `json:"prepare"`
	ChViews   []PRec `json:"chViews"`
	PreCommit []PRec `json:"preCommit"`
	Commit    []PRec `json:"commit"`
}

type TimerRec struct {
	K   string `json:"k"`
	H   uint32 `json:"h"`
	V   int    `json:"v"`
	Due int64  `json:"due"`
	D   int64  `json:"d"`
	Ext int64  `json:"ext"`
}

// PState is the projected node state (section 3.2 of DESIGN.md).
type PState struct {
	Started   bool       `json:"started"`
	H         uint32     `json:"h"`
	V         int        `json:"v"`
	N         int        `json:"n"`
	Me        int        `json:"me"`
	Watch     bool       `json:"watch"`
	Primary   int        `json:"primary"`
	Amev      bool       `json:"amev"`
	Vals      []int      `json:"vals"`
	Prev      string     `json:"prev"`
	Ts        uint64     `json:"ts"`
	Nonce     string     `json:"nonce"`
	Txs       []string   `json:"txs"`
	Have      []string   `json:"have"`
	Missing   []string   `json:"missing"`
	Prep      []Slot     `json:"prep"`
	Pc        []Slot     `json:"pc"`
	Cm        []Slot     `json:"cm"`
	Cv        []Slot     `json:"cv"`
	LastCv    []Slot     `json:"lastcv"`
	Seen      []Slot     `json:"seen"`
	BlockDone bool       `json:"blockDone"`
	PreDone   bool       `json:"preDone"`
	Hdr       bool       `json:"hdr"`
	PreHdr    bool       `json:"preHdr"`
	Blk       bool       `json:"blk"`
	PreBlk    bool       `json:"preBlk"`
	Cache     []InboxRec `json:"cache"`
	Timer     TimerRec   `json:"timer"`
	Sub       bool       `json:"sub"`
	LbTs      uint64     `json:"lbTs"`
	LbTime    int64      `json:"lbTime"`
	LbIdx     uint32     `json:"lbIdx"`
	LbView    int        `json:"lbView"`
	SentAt    int64      `json:"sentAt"`
	RttAvg    int64      `json:"rttAvg"`
	RttOld    int64      `json:"rttOld"`
	Tpb       int64      `json:"tpb"`
	MaxTpb    int64      `json:"maxTpb"`
	NilSeen   bool       `json:"nilSeen"`    // the application's NewBlockFromContext returned no block at least once in this height and view
	VerifOk   bool       `json:"verifiedOk"` // application accepted the (pre-)block of the stored proposal in this view
}

func tnano(t time.Time, origin int64) int64 {
	if t.IsZero() {
		return -1
	}
	return t.UnixNano() - origin
}

func keyID(k dbft.PublicKey) int {
	if kk, ok := k.(*Key); ok && kk != nil {
		return kk.ID
	}
	return -1
}

func mapRecs(m map[uint16]dbft.ConsensusPayload[H]) []PRec {
	ks := make([]int, 0, len(m))
	for k := range m {
		ks = append(ks, int(k))
	}
	sort.Ints(ks)
	r := make([]PRec, 0, len(ks))
	for _, k := range ks {
		r = append(r, m[uint16(k)].(*Payload).Rec())
	}
	return r
}

// Proj projects the node state. If handed is non-nil the `valid` bits of the
// commit table are computed against that block (the one given to
// ProcessBlock), otherwise against the block the context describes.
func (n *Node) Proj(handed *Block) *PState { return n.proj(handed, nil) }

// ProjPre is Proj for the ProcessPreBlock callback.
func (n *Node) ProjPre(handed *PreBlock) *PState { return n.proj(nil, handed) }

func (n *Node) proj(handed *Block, handedPre *PreBlock) *PState {
	d := n.D
	c := &d.Context
	s := &PState{Started: n.started, Txs: []string{}, Have: []string{}, Missing: []string{},
		Vals: []int{}, Prep: []Slot{}, Pc: []Slot{}, Cm: []Slot{}, Cv: []Slot{}, LastCv: []Slot{}, Seen: []Slot{}, Cache: []InboxRec{},
		Timer: TimerRec{K: "none"}}
	if n.Timer.Armed {
		s.Timer = TimerRec{K: "t", H: n.Timer.H, V: int(n.Timer.V), Due: n.Timer.Due, D: n.Timer.LastD, Ext: n.Timer.Ext}
	}
	if !n.started {
		s.Me = -1
		return s
	}
	vs := d.VerifSnapshot()
	s.H, s.V, s.N, s.Me = c.BlockIndex, int(c.ViewNumber), len(c.Validators), c.MyIndex
	s.Watch = c.WatchOnly()
	s.NilSeen = n.nilSeen[[2]uint32{c.BlockIndex, uint32(c.ViewNumber)}]
	s.Primary = int(c.PrimaryIndex)
	s.Amev = d.Config.AntiMEVExtensionEnablingHeight >= 0 && uint32(d.Config.AntiMEVExtensionEnablingHeight) <= c.BlockIndex
	for _, v := range c.Validators {
		s.Vals = append(s.Vals, keyID(v))
	}
	s.Prev = short(c.PrevHash)
	s.Ts, s.Nonce, s.Txs = rel(c.Timestamp, n.Clk.Origin), strconv.FormatUint(c.Nonce, 10), hs(c.TransactionHashes)
	for h := range c.Transactions {
		s.Have = append(s.Have, string(h))
	}
	sort.Strings(s.Have)
	s.Missing = hs(c.MissingTransactions)
	reqStored := len(c.PreparationPayloads) > int(c.PrimaryIndex) && c.PreparationPayloads[c.PrimaryIndex] != nil
	ctxRec := ctxBlockRec(c)
	if reqStored {
		s.VerifOk = n.verified[string(ctxRec.hash("B"))] || n.verified[string(ctxRec.hash("PB"))]
	}
	none := Slot{K: "none"}
	for _, p := range c.PreparationPayloads {
		if p == nil {
			s.Prep = append(s.Prep, none)
			continue
		}
		q := p.(*Payload)
		v := int(q.V)
		switch b := q.Body.(type) {
		case *ReqBody:
			rh := q.reqHash()
			s.Prep = append(s.Prep, Slot{K: "req", V: &v, PH: &rh})
		case *RespBody:
			rh := parseReqHash(b.PH)
			s.Prep = append(s.Prep, Slot{K: "resp", V: &v, PH: &rh})
		default:
			s.Prep = append(s.Prep, Slot{K: "bad", V: &v})
		}
	}
	sigSlots := func(l []dbft.ConsensusPayload[H], kind string) []Slot {
		r := []Slot{}
		for i, p := range l {
			if p == nil {
				r = append(r, none)
				continue
			}
			q := p.(*Payload)
			v := int(q.V)
			var raw []byte
			if kind == "cm" {
				raw = q.Body.(*CommitBody).Sig
			} else {
				raw = q.Body.(*PreCommitBody).D
			}
			sr := parseSig(raw)
			valid := false
			pub := c.Validators[i]
			switch {
			case kind == "cm" && handed != nil:
				valid = handed.Verify(pub, raw) == nil
			case kind == "pc" && handedPre != nil:
				valid = handedPre.Verify(pub, raw) == nil
			case kind == "cm":
				valid = reqStored && string(raw) == string(MakeSig(keyID(pub), ctxRec.hash("B")))
			default:
				valid = reqStored && string(raw) == string(MakeData(keyID(pub), ctxRec.hash("PB")))
			}
			early := !n.notEarly[q.Key()]
			enil := n.nilEarly[q.Key()]
			r = append(r, Slot{K: kind, V: &v, S: &sr.S, B: &sr.B, Valid: &valid, Early: &early, ENil: &enil})
		}
		return r
	}
	s.Pc = sigSlots(c.PreCommitPayloads, "pc")
	s.Cm = sigSlots(c.CommitPayloads, "cm")
	cvSlots := func(l []dbft.ConsensusPayload[H]) []Slot {
		r := []Slot{}
		for _, p := range l {
			if p == nil {
				r = append(r, none)
				continue
			}
			q := p.(*Payload)
			b := q.Body.(*CVBody)
			v, nv, rs := int(q.V), int(b.NV), int(b.Rsn)
			ts := b.Ts
			r = append(r, Slot{K: "cv", V: &v, NV: &nv, Ts: &ts, Reason: &rs})
		}
		return r
	}
	s.Cv = cvSlots(c.ChangeViewPayloads)
	s.LastCv = cvSlots(c.LastChangeViewPayloads)
	for _, hv := range c.LastSeenMessage {
		if hv == nil {
			s.Seen = append(s.Seen, none)
			continue
		}
		h, v := hv.Height, int(hv.View)
		s.Seen = append(s.Seen, Slot{K: "hv", H: &h, V: &v})
	}
	s.BlockDone, s.PreDone, s.Hdr, s.PreHdr = vs.BlockProcessed, vs.PreBlockProcessed, vs.HeaderBuilt, vs.PreHeaderBuilt
	s.Blk, s.PreBlk = vs.BlockBuilt, vs.PreBlockBuilt
	hts := make([]int, 0, len(vs.Cache))
	for h := range vs.Cache {
		hts = append(hts, int(h))
	}
	sort.Ints(hts)
	for _, h := range hts {
		in := vs.Cache[uint32(h)]
		s.Cache = append(s.Cache, InboxRec{H: uint32(h), Prepare: mapRecs(in.Prepare), ChViews: mapRecs(in.ChViews),
			PreCommit: mapRecs(in.PreCommit), Commit: mapRecs(in.Commit)})
	}
	s.Sub = vs.TxSubscriptionOn
	s.LbTs, s.LbTime, s.LbIdx, s.LbView = rel(vs.LastBlockTimestamp, n.Clk.Origin), tnano(vs.LastBlockTime, n.Clk.Origin), vs.LastBlockIndex, int(vs.LastBlockView)
	s.SentAt, s.RttAvg, s.RttOld = tnano(vs.PrepareSentTime, n.Clk.Origin), int64(vs.RttAvg), int64(vs.RttOld)
	s.Tpb, s.MaxTpb = int64(vs.TimePerBlock), int64(vs.MaxTimePerBlock)
	return s
}

// ---------------------------------------------------------------------------
// API calls, each producing one trace line.

type LedgerRec struct {
	Height  uint32 `json:"height"`
	Tip     string `json:"tip"`
	TipTs   uint64 `json:"tipTs"`
	NVals   int    `json:"nvals"`
	MyIndex int    `json:"myIndex"`
	Vals    []int  `json:"vals"`
}

// AppRec is what the application would answer during the call (taken before it).
type AppRec struct {
	Known     []string `json:"known"`
	Pool      []string `json:"pool"`
	Bad       []string `json:"bad"`
	FailPre   int      `json:"failPre"`
	FailBlock int      `json:"failBlock"`
	NilBlock  bool     `json:"nilBlock"`
}

func (n *Node) appRec() AppRec {
	a := AppRec{Known: []string{}, Pool: []string{}, Bad: []string{}, FailPre: n.FailPreBlock, FailBlock: n.FailBlock, NilBlock: n.NilBlock}
	for h := range n.Known {
		a.Known = append(a.Known, string(h))
	}
	sort.Strings(a.Known)
	for _, t := range n.Pool {
		a.Pool = append(a.Pool, string(t))
	}
	for h, b := range n.BadTx {
		if b {
			a.Bad = append(a.Bad, string(h))
		}
	}
	sort.Strings(a.Bad)
	return a
}

// Line is one ndjson trace line: one API call of one node.
type Line struct {
	I      int       `json:"i"`
	N      int       `json:"n"`
	Now    int64     `json:"now"`
	Call   string    `json:"call"`
	Arg    any       `json:"arg"`
	Ledger LedgerRec `json:"ledger"`
	Cfg    *NodeCfg  `json:"cfg,omitempty"`
	App    AppRec    `json:"app"`
	Post   *PState   `json:"post"`
	Fresh  bool      `json:"fresh"` // the DBFT object was (re)created by this call: previous state is void
	Cb     []CbRec   `json:"cb"`
	Panic  string    `json:"panic"`
}

type HV struct {
	H uint32 `json:"h"`
	V int    `json:"v"`
}
type TsArg struct {
	Ts uint64 `json:"ts"`
}
type TxArg struct {
	Tx string `json:"tx"`
}
type NoArg struct{}

func (n *Node) ledgerRec() LedgerRec {
	vals := n.W.ValidatorsAt(n.Height + 1)
	my := -1
	for i, id := range vals {
		if id == n.ID {
			my = i
		}
	}
	return LedgerRec{Height: n.Height, Tip: short(n.TipHash), TipTs: n.TipTs, NVals: len(vals), MyIndex: my, Vals: vals}
}

func (n *Node) call(name string, arg any, f func()) *Line {
	// `ledger` is the application ledger as the library saw it: the library reads it during Start / Reset only, so between two
	// initialisations the line carries the ledger of the last one (the application's own ledger may already have moved on:
	// a block fetched from a peer before Reset is called)
	led := n.ledgerRec()
	if name == "Start" || name == "Reset" || n.initLedger == nil {
		n.initLedger = &led
	} else {
		led = *n.initLedger
	}
	l := &Line{N: n.ID, Now: n.Clk.Now, Call: name, Arg: arg, Ledger: led, App: n.appRec()}
	if n.cfgDirty { // the configuration callbacks answer differently since the previous call (watch-only flag set)
		c := n.Cfg
		l.Cfg = &c
		n.cfgDirty = false
	}
	n.cbs = []CbRec{}
	n.nAPI++
	curOrigin = n.Clk.Origin
	func() {
		defer func() {
			if r := recover(); r != nil {
				l.Panic = fmt.Sprint(r)
			}
		}()
		f()
	}()
	l.Cb = n.cbs
	n.cbs = nil
	l.Post = n.Proj(nil)
	return l
}

func indexOfH(l []H, x H) int {
	for i, v := range l {
		if v == x {
			return i
		}
	}
	return -1
}

func (n *Node) newEpochObs() {
	n.Requested = nil
	n.notEarly = map[string]bool{}
	n.nilEarly = map[string]bool{}
	n.verified = map[string]bool{}
}

func (n *Node) Start() *Line {
	n.newEpochObs()
	l := n.call("Start", TsArg{n.TipTs}, func() { n.started = true; n.D.Start(n.TipTs + uint64(n.Clk.Origin)) })
	l.Cfg = &n.Cfg
	l.Fresh = true
	return l
}
func (n *Node) Reset() *Line {
	n.newEpochObs()
	return n.call("Reset", TsArg{n.TipTs}, func() { n.D.Reset(n.TipTs + uint64(n.Clk.Origin)) })
}
func (n *Node) Receive(p *Payload) *Line {
	q := p.clone()
	if rm, ok := q.Body.(*RMsgBody); ok {
		rm2 := *rm
		rm2.order = n.RMsgOrder
		rm2.note = func(which string, perm []int) { n.cb(CbRec{K: "RMOrder", Which: which, Perm: perm}) }
		q.Body = &rm2
	}
	return n.call("OnReceive", p.Rec(), func() { n.D.OnReceive(q) })
}
func (n *Node) Timeout(h uint32, v byte) *Line {
	return n.call("OnTimeout", HV{h, int(v)}, func() { n.D.OnTimeout(h, v) })
}
func (n *Node) Transaction(t Tx) *Line {
	return n.call("OnTransaction", TxArg{string(t)}, func() { n.D.OnTransaction(t) })
}
func (n *Node) NewTransaction() *Line {
	return n.call("OnNewTransaction", NoArg{}, func() { n.D.OnNewTransaction() })
}

// SetWatch: from now on the application's WatchOnly callback answers true (the operator demotes the validator to an observer
// without restarting it). The next trace line carries the new configuration.
func (n *Node) SetWatch() {
	if !n.Cfg.Watch {
		n.Cfg.Watch = true
		n.cfgDirty = true
	}
}

// Restart replaces the DBFT object by a fresh one (amnesia), ledger kept.
func (n *Node) Restart() *Line {
	n.Timer.Armed = false
	n.build()
	return n.Start()
}

// AdvanceLedger makes block b the tip of the node's ledger.
func (n *Node) AdvanceLedger(b *Block) {
	n.Height, n.TipHash, n.TipTs = b.Rec.H, b.Hash(), b.Rec.Ts
}
