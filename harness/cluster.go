package main

import (
	"bufio"
	"bytes"
	"crypto/rand"
	"encoding/json"
	"math"
	mrand "math/rand"
	"os"
	"sort"

	"github.com/nspcc-dev/dbft"
)

// detReader makes the library's crypto/rand nonce deterministic per run.
type detReader struct{ r *mrand.Rand }

func (d *detReader) Read(b []byte) (int, error) {
	for i := range b {
		b[i] = byte(d.r.Intn(256))
	}
	return len(b), nil
}

func seedNonces(seed int64) { rand.Reader = &detReader{r: mrand.New(mrand.NewSource(seed))} }

// TraceWriter writes ndjson trace lines.
type TraceWriter struct {
	f   *os.File
	w   *bufio.Writer
	enc *json.Encoder
	N   int
}

func NewTraceWriter(path string) *TraceWriter {
	f, err := os.Create(path)
	if err != nil {
		panic(err)
	}
	w := bufio.NewWriterSize(f, 1<<20)
	return &TraceWriter{f: f, w: w, enc: json.NewEncoder(w)}
}
func (t *TraceWriter) Write(v any) {
	t.N++
	b, err := json.Marshal(v)
	if err != nil {
		panic(err)
	}
	if bytes.Contains(b, []byte(":null")) { // TLC's Json module cannot read null
		panic("trace line contains a JSON null: " + string(b[:min(len(b), 300)]))
	}
	t.w.Write(clampInts(b))
	t.w.WriteByte('\n')
}

// clampInts rewrites every JSON number outside the 32-bit range (TLC integers) to +-2147483647.
// Virtual time keeps all honest values far inside; only a leak of the wall clock produces such numbers.
func clampInts(b []byte) []byte {
	out := make([]byte, 0, len(b))
	inStr := false
	for i := 0; i < len(b); i++ {
		c := b[i]
		if inStr {
			out = append(out, c)
			if c == '\\' && i+1 < len(b) {
				i++
				out = append(out, b[i])
			} else if c == '"' {
				inStr = false
			}
			continue
		}
		if c == '"' {
			inStr = true
			out = append(out, c)
			continue
		}
		if c >= '0' && c <= '9' {
			j := i
			for j < len(b) && b[j] >= '0' && b[j] <= '9' {
				j++
			}
			if j-i > 10 || (j-i == 10 && string(b[i:j]) > "2147483647") {
				out = append(out, []byte("2147483647")...)
			} else {
				out = append(out, b[i:j]...)
			}
			i = j - 1
			continue
		}
		out = append(out, c)
	}
	return out
}
func (t *TraceWriter) Close() { t.w.Flush(); t.f.Close() }

// RunStart is the first line of every run in a trace file.
type RunStart struct {
	Call   string         `json:"call"` // "RunStart"
	Run    int            `json:"run"`
	Seed   int64          `json:"seed"`
	Driver string         `json:"driver"`
	Nodes  []int          `json:"nodes"`  // real nodes observed
	Faulty []int          `json:"faulty"` // Byzantine or restarted identities (excluded from agreement)
	Sync   bool           `json:"sync"`   // fault-free synchronous run (C08/C16 premises hold)
	Params map[string]any `json:"params"`
}

// Cluster is a set of real nodes plus the network pool and the adversary.
type Cluster struct {
	Clk    *Clock
	Nodes  []*Node // real nodes, in id order (may have gaps in ids)
	byID   map[int]*Node
	Vals   func(h uint32) []int
	Pool   []*Payload // every payload broadcast by a real node, in order
	PoolBy []int      // sender id of Pool[i]
	Chain  map[uint32]*Block
	Out    *TraceWriter
	Rng    *mrand.Rand
	lineNo int
	pending []pendingMsg // script driver: payloads of real nodes still in flight
	Tainted bool // script driver: a delivery under a real node's identity had no real counterpart
	OnLine func(l *Line)
}

func (c *Cluster) ValidatorsAt(h uint32) []int { return c.Vals(h) }

func NewCluster(seed int64, out *TraceWriter) *Cluster {
	return &Cluster{Clk: &Clock{Now: 1000}, byID: map[int]*Node{}, Chain: map[uint32]*Block{}, Out: out,
		Rng: mrand.New(mrand.NewSource(seed))}
}

func (c *Cluster) AddNode(id int, cfg NodeCfg) *Node {
	n := NewNode(id, cfg, c, c.Clk)
	n.Broadcast = func(n *Node, p *Payload) {
		c.Pool = append(c.Pool, p.clone())
		c.PoolBy = append(c.PoolBy, n.ID)
	}
	n.RMsgOrder = func(k int) []int { return c.Rng.Perm(k) }
	c.Nodes = append(c.Nodes, n)
	c.byID[id] = n
	sort.Slice(c.Nodes, func(i, j int) bool { return c.Nodes[i].ID < c.Nodes[j].ID })
	return n
}

// Emit writes the line and records accepted blocks.
func (c *Cluster) Emit(l *Line) *Line {
	c.lineNo++
	l.I = c.lineNo
	if c.Out != nil {
		c.Out.Write(l)
	}
	for _, cb := range l.Cb {
		if cb.K == "ProcessBlock" && cb.Ok != nil && *cb.Ok {
			n := c.byID[l.N]
			bl := n.Accepted[cb.Block.H]
			if _, ok := c.Chain[cb.Block.H]; !ok && len(bl) > 0 {
				c.Chain[cb.Block.H] = bl[len(bl)-1]
			}
		}
	}
	if c.OnLine != nil {
		c.OnLine(l)
	}
	return l
}

func indexOf(l []int, x int) int {
	for i, v := range l {
		if v == x {
			return i
		}
	}
	return -1
}

// fOf is the fault bound for n validators (used by the harness only to pick
// how many validators to corrupt; never as an oracle).
func fOf(n int) int { return int(math.Floor(float64(n-1) / 3)) }

// ---------------------------------------------------------------------------
// Byzantine payload construction (under the faulty validators' own identities).

func mkReq(h uint32, v byte, from int, ts uint64, nonce uint64, txs []H) *Payload {
	return &Payload{T: dbft.PrepareRequestType, Ht: h, V: v, From: uint16(from), Body: &ReqBody{Ts: ts, NonceV: nonce, Txs: txs}}
}
func mkResp(h uint32, v byte, from int, ph H) *Payload {
	return &Payload{T: dbft.PrepareResponseType, Ht: h, V: v, From: uint16(from), Body: &RespBody{PH: ph}}
}
func mkCV(h uint32, v byte, from int, nv byte, ts uint64) *Payload {
	return &Payload{T: dbft.ChangeViewType, Ht: h, V: v, From: uint16(from), Body: &CVBody{NV: nv, Rsn: dbft.CVTimeout, Ts: ts}}
}
func mkCommit(h uint32, v byte, from int, sig []byte) *Payload {
	return &Payload{T: dbft.CommitType, Ht: h, V: v, From: uint16(from), Body: &CommitBody{Sig: sig}}
}
func mkPreCommit(h uint32, v byte, from int, d []byte) *Payload {
	return &Payload{T: dbft.PreCommitType, Ht: h, V: v, From: uint16(from), Body: &PreCommitBody{D: d}}
}
func mkRReq(h uint32, v byte, from int, ts uint64) *Payload {
	return &Payload{T: dbft.RecoveryRequestType, Ht: h, V: v, From: uint16(from), Body: &RReqBody{Ts: ts}}
}

// blockRecOf is the block a node holding `prev` as tip builds from proposal p.
func blockRecOf(p *Payload, prev H) BlockRec {
	b := p.Body.(*ReqBody)
	return BlockRec{H: p.Ht, Prev: short(prev), Ts: b.Ts, Nonce: itoa(b.NonceV), Txs: hs(b.Txs)}
}
