package main

// Driver "script" (spec -> code): executes behaviours printed by `tlc -simulate`
// of spec/MC_Node.tla (one JSON array of events per line) on a real node. The
// resulting trace is validated like any other: property formulas on the real
// behaviour plus conformance of every call with the specification that
// generated the schedule.

import (
	"bufio"
	"fmt"
	"crypto/rand"
	"encoding/binary"
	"encoding/json"
	"os"
	"strconv"

	"github.com/nspcc-dev/dbft"
)

type sEnv struct {
	Now    int64 `json:"now"`
	Ledger struct {
		Height  uint32 `json:"height"`
		Tip     string `json:"tip"`
		TipTs   uint64 `json:"tipTs"`
		NVals   int    `json:"nvals"`
		MyIndex int    `json:"myIndex"`
		Vals    []int  `json:"vals"`
	} `json:"ledger"`
	Known     []string `json:"known"`
	Pool      []string `json:"pool"`
	Bad       []string `json:"bad"`
	FailPre   int      `json:"failPre"`
	FailBlock int      `json:"failBlock"`
	NilBlock  bool     `json:"nilBlock"`
	Nonce     string   `json:"nonce"`
}

type sEvent struct {
	N    *int            `json:"n"` // node (validator index = key id) in multi-node behaviours of MC_Net; absent: single node 500
	Call string          `json:"call"`
	Arg  json.RawMessage `json:"arg"`
	Env  sEnv            `json:"env"`
	Cfg  *NodeCfg        `json:"cfg"`
	// behaviours of spec/MC_Sync.tla (fault-free synchronous run of one node): the premises of C08 hold
	Sync   bool   `json:"sync"`
	Target uint32 `json:"target"`
	Done   bool   `json:"done"`
	// timed behaviours (spec/MC_Dyn.tla): tolerance of the C16 gap formulas (absent: one block time, i.e. not checked)
	DelayMax *int64 `json:"delayMax"`
	// behaviours of spec/MC_Live.tla (synchronous network with silent / cut-off validators): the premises of C09 hold
	C09     bool   `json:"c09"`
	Kind    string `json:"kind"`
	NSilent int    `json:"nsilent"`
}

// fixedNonce makes the library draw exactly the nonce the specification chose.
type fixedNonce struct{ v uint64 }

func (f *fixedNonce) Read(b []byte) (int, error) {
	var x [8]byte
	binary.LittleEndian.PutUint64(x[:], f.v)
	for i := range b {
		b[i] = x[i%8]
	}
	return len(b), nil
}

func delayMaxOf(e sEvent) int64 {
	if e.DelayMax != nil {
		return *e.DelayMax
	}
	return e.Cfg.Tpb
}

func fromRec(r PRec) *Payload {
	p := &Payload{Ht: r.H, V: byte(r.V), From: uint16(r.From)}
	u := func(x *uint64) uint64 {
		if x == nil {
			return 0
		}
		return *x
	}
	switch r.T {
	case "PrepareRequest":
		p.T = dbft.PrepareRequestType
		n, _ := strconv.ParseUint(*r.Nonce, 10, 64)
		var txs []H
		for _, t := range *r.Txs {
			txs = append(txs, H(t))
		}
		p.Body = &ReqBody{Ts: u(r.Ts), NonceV: n, Txs: txs}
	case "PrepareResponse":
		p.T = dbft.PrepareResponseType
		p.Body = &RespBody{PH: r.PH.hash()}
	case "ChangeView":
		p.T = dbft.ChangeViewType
		p.Body = &CVBody{NV: byte(*r.NV), Rsn: dbft.ChangeViewReason(*r.Reason), Ts: u(r.Ts)}
	case "Commit":
		p.T = dbft.CommitType
		if *r.S < 0 {
			p.Body = &CommitBody{Sig: []byte("junk0")}
		} else {
			p.Body = &CommitBody{Sig: MakeSig(*r.S, r.B.hash("B"))}
		}
	case "PreCommit":
		p.T = dbft.PreCommitType
		if *r.S < 0 {
			p.Body = &PreCommitBody{D: []byte("junk0")}
		} else {
			p.Body = &PreCommitBody{D: MakeData(*r.S, r.B.hash("PB"))}
		}
	case "RecoveryRequest":
		p.T = dbft.RecoveryRequestType
		p.Body = &RReqBody{Ts: u(r.Ts)}
	case "RecoveryMessage":
		p.T = dbft.RecoveryMessageType
		rm := &RMsgBody{}
		for _, l := range []*[]PRec{r.Prep, r.CVs, r.PCs, r.CMs} {
			if l != nil {
				for _, q := range *l {
					rm.AddPayload(fromRec(q))
				}
			}
		}
		p.Body = rm
	}
	return p
}


func mustJSON(v any) []byte {
	b, err := json.Marshal(v)
	if err != nil {
		panic(err)
	}
	return b
}

func idsOf(evs []sEvent) (ids, faulty []int) {
	ids, faulty = []int{}, []int{}
	for _, e := range evs {
		id := 500
		if e.N != nil {
			id = *e.N
		}
		if indexOf(ids, id) < 0 {
			ids = append(ids, id)
		}
	}
	for _, v := range evs[0].Env.Ledger.Vals {
		if indexOf(ids, v) < 0 && evs[0].N != nil {
			faulty = append(faulty, v)
		}
	}
	return
}

// playBehaviour executes one behaviour on the real nodes of cluster c (created on demand); the injected clock reads the
// specification's instant plus offset. Returns the trace lines (also written by the cluster when it has an output).
// realPayload finds, among the payloads the real node `from` has broadcast so far, the one a multi-node behaviour of the
// specification means by r: the identical one if it exists, else the latest one of the same kind (type, height, view, sender;
// requested view for a ChangeView). Closed loop: payloads under the identity of a real node are never made up by the driver.
func realPayload(sent []*Payload, r PRec) *Payload {
	want, _ := json.Marshal(r)
	var byKey *Payload
	for i := len(sent) - 1; i >= 0; i-- {
		q := sent[i].Rec()
		if q.T != r.T || q.H != r.H || q.V != r.V || q.From != r.From {
			continue
		}
		if got, _ := json.Marshal(q); string(got) == string(want) {
			return sent[i]
		}
		if byKey == nil && (r.NV == nil || (q.NV != nil && *q.NV == *r.NV)) {
			byKey = sent[i]
		}
	}
	return byKey
}

// scriptStats counts, over all multi-node behaviours of this process, how the closed loop resolved deliveries.
var scriptStats struct{ Exact, ByKey, Skipped int }

// pendingMsg: a payload a real node has broadcast that the behaviour has not (yet) delivered to node `to`.
type pendingMsg struct {
	p  *Payload
	to int
}

func playBehaviour(c *Cluster, evs []sEvent, offset int64) []*Line {
	var lines []*Line
	var vals []int
	multi := len(evs) > 0 && evs[0].N != nil
	sentBy := map[int][]*Payload{} // node id -> everything the real node has broadcast in this run
	c.Tainted = false
	c.pending = nil
	c.Vals = func(h uint32) []int { return vals }
	for _, e := range evs {
		c.Clk.Now = e.Env.Now + offset
		id := 500
		if e.N != nil {
			id = *e.N
		}
		n := c.byID[id]
		if n == nil {
			if e.Cfg == nil {
				continue
			}
			vals = e.Env.Ledger.Vals
			n = NewNode(id, *e.Cfg, c, c.Clk)
			n.LaxVerify = !e.Sync // schedules of the specification: the application does not look at block bodies, except in fault-free synchronous ones (C08)
			n.Broadcast = func(n *Node, p *Payload) {
				q := p.clone()
				sentBy[n.ID] = append(sentBy[n.ID], q)
				for _, m := range c.Nodes {
					if m.ID != n.ID {
						c.pending = append(c.pending, pendingMsg{q, m.ID})
					}
				}
			}
			n.Height, n.TipHash, n.TipTs = e.Env.Ledger.Height, H(e.Env.Ledger.Tip), e.Env.Ledger.TipTs
			c.Nodes = append(c.Nodes, n)
			c.byID[id] = n
		}
		// the application's ledger is whatever the specification's environment says it is for this call
		vals = e.Env.Ledger.Vals
		n.Height, n.TipHash, n.TipTs = e.Env.Ledger.Height, H(e.Env.Ledger.Tip), e.Env.Ledger.TipTs
		n.Known = map[H]Tx{}
		for _, t := range e.Env.Known {
			n.Known[H(t)] = Tx(t)
		}
		n.Pool = nil
		for _, t := range e.Env.Pool {
			n.Pool = append(n.Pool, Tx(t))
		}
		n.BadTx = map[H]bool{}
		for _, t := range e.Env.Bad {
			n.BadTx[H(t)] = true
		}
		n.FailPreBlock, n.FailBlock, n.NilBlock = e.Env.FailPre, e.Env.FailBlock, e.Env.NilBlock
		nv, _ := strconv.ParseUint(e.Env.Nonce, 10, 64)
		rand.Reader = &fixedNonce{v: nv}
		var l *Line
		switch e.Call {
		case "Start":
			l = n.Start()
		case "Reset":
			l = n.Reset()
		case "Restart": // the process restarts: a fresh DBFT object over the same ledger
			l = n.Restart()
		case "OnReceive":
			var r PRec
			if err := json.Unmarshal(e.Arg, &r); err != nil {
				panic(err)
			}
			p := fromRec(r)
			if _, real := c.byID[r.From]; multi && real && r.From != id {
				// the sender is a real node of this run: deliver what it really broadcast, or nothing
				q := realPayload(sentBy[r.From], r)
				if q == nil {
					scriptStats.Skipped++
					c.Tainted = true // the real cluster has left the behaviour the specification generated: no end-of-run verdict
					continue
				}
				if a, _ := json.Marshal(q.Rec()); string(a) == string(mustJSON(r)) {
					scriptStats.Exact++
				} else {
					scriptStats.ByKey++
				}
				for i, pm := range c.pending { // this delivery is no longer in flight
					if pm.p == q && pm.to == id {
						c.pending = append(c.pending[:i:i], c.pending[i+1:]...)
						break
					}
				}
				p = q.clone()
			}
			l = n.Receive(p)
		case "OnTimeout":
			var a HV
			_ = json.Unmarshal(e.Arg, &a)
			l = n.Timeout(a.H, byte(a.V))
		case "OnTransaction":
			var a TxArg
			_ = json.Unmarshal(e.Arg, &a)
			l = n.Transaction(Tx(a.Tx))
		case "OnNewTransaction":
			l = n.NewTransaction()
		}
		if l != nil {
			lines = append(lines, c.Emit(l))
		}
	}
	return lines
}

// playPair (C14): the same behaviour - identical calls, payloads, ledger and callback results - against two clocks that differ
// by delta; written as Pair lines (mode "inputs") for the clock-shift formula. The comparison of a pair stops once a cache
// inbox holds two payloads of a kind (their replay order is Go's map order: the two runs may then legitimately differ).
func playPair(out *TraceWriter, evs []sEvent, run int, delta int64) {
	ids, _ := idsOf(evs)
	out.Write(RunStart{Call: "RunStart", Run: run, Seed: 0, Driver: "scriptpair", Nodes: ids, Faulty: []int{},
		Params: map[string]any{"events": len(evs), "delta": delta, "mode": "inputs"}})
	la := playBehaviour(NewCluster(int64(run), nil), evs, 0)
	lb := playBehaviour(NewCluster(int64(run), nil), evs, delta)
	for i := 0; i < len(la) && i < len(lb); i++ {
		out.Write(Pair{Call: "Pair", Run: run, I: i + 1, Delta: delta, Mode: "inputs", A: la[i], B: lb[i]})
		for _, l := range []*Line{la[i], lb[i]} {
			if l.Panic != "" || l.Post == nil {
				return
			}
			for _, in := range l.Post.Cache {
				if len(in.Prepare) > 1 || len(in.ChViews) > 1 || len(in.PreCommit) > 1 || len(in.Commit) > 1 {
					return
				}
			}
		}
	}
}

func runScript(out *TraceWriter, path string, from, runs int, pairDelta int64) {
	f, err := os.Open(path)
	if err != nil {
		panic(err)
	}
	defer f.Close()
	sc := bufio.NewScanner(f)
	sc.Buffer(make([]byte, 1<<20), 1<<28)
	run := -1
	for sc.Scan() {
		run++
		if run < from || (runs > 0 && run >= from+runs) {
			continue
		}
		var evs []sEvent
		if err := json.Unmarshal(sc.Bytes(), &evs); err != nil {
			panic(err)
		}
		if len(evs) == 0 || evs[0].Call != "Start" || evs[0].Cfg == nil {
			continue
		}
		if pairDelta != 0 {
			playPair(out, evs, run, pairDelta)
			continue
		}
		c := NewCluster(int64(run), out)
		ids, faulty := idsOf(evs)
		params := map[string]any{"events": len(evs), "n0": evs[0].Env.Ledger.NVals, "myIndex": evs[0].Env.Ledger.MyIndex,
			"h0": evs[0].Env.Ledger.Height, "tpb": evs[0].Cfg.Tpb, "maxTpb": evs[0].Cfg.MaxTpb, "delayMax": delayMaxOf(evs[0])}
		keepInFlight := evs[0].Kind == "silent"
		if evs[0].C09 {
			kind := evs[0].Kind
			for _, e := range evs {
				if e.Call == "Restart" { // a validator lost its state: the view bound of C09 speaks about validators silent from the start only
					kind, keepInFlight = "restart", false
				}
			}
			params["c09"], params["kind"], params["nsilent"], params["freerun"] = true, kind, evs[0].NSilent, true
			faulty = []int{} // silent validators are not Byzantine: every real node counts for agreement
		}
		out.Write(RunStart{Call: "RunStart", Run: run, Seed: 0, Driver: "script", Nodes: ids, Faulty: faulty, Sync: evs[0].Sync, Params: params})
		playBehaviour(c, evs, 0)
		last := evs[len(evs)-1]
		free := false
		if evs[0].C09 && len(c.Nodes) == evs[0].Env.Ledger.NVals-evs[0].NSilent {
			// C09, eventual synchrony: whatever state the behaviour has taken the real cluster to, from now on the network is
			// synchronous - and every live validator must decide (freeRun). Also for behaviours the real nodes did not follow to the end.
			free = freeRun(c, evs[0].Target, keepInFlight)
		}
		if (evs[0].Sync || evs[0].C09) && ((last.Done && !c.Tainted) || free) {
			// the specification says this synchronous run is complete (or the run was continued under synchrony): every live node must have decided up to the target
			end := RunEnd{Call: "RunEnd", Run: run, Now: c.Clk.Now, Target: evs[0].Target, Heights: [][]int{}, Live: []int{}}
			for _, n := range c.Nodes {
				hh := n.Height // the ledger follows the blocks the node accepted (the specification's environment drives it call by call)
				for h, acc := range n.Accepted {
					if len(acc) > 0 && h > hh {
						hh = h
					}
				}
				end.Heights = append(end.Heights, []int{n.ID, int(hh)})
				end.Live = append(end.Live, n.ID)
			}
			out.Write(end)
		}
	}
	if scriptStats.Exact+scriptStats.ByKey+scriptStats.Skipped > 0 {
		fmt.Fprintf(os.Stderr, "script: closed loop: %d deliveries identical to the specification's payload, %d replaced by the real node's payload of the same kind, %d skipped (never sent)\n",
			scriptStats.Exact, scriptStats.ByKey, scriptStats.Skipped)
	}
}

// freeRun continues a multi-node run under SYNCHRONY from whatever state the real cluster is in: every payload a node broadcasts
// reaches every other node before the next timer expires; a timer fires only when nothing is in flight, the earliest first, and
// the clock jumps to it. Payloads still in flight from the behaviour are delivered first (keep) or are lost (a partition that
// has just healed / a crash). Ends when every node has accepted the block of the target height, or after 80 block times of
// virtual time. Returns false if the run cannot be judged (a node not started).
func freeRun(c *Cluster, target uint32, keep bool) bool {
	for _, n := range c.Nodes {
		if !n.started {
			return false
		}
	}
	var queue []pendingMsg
	if keep {
		queue = append(queue, c.pending...)
	}
	c.pending = nil
	for _, n := range c.Nodes {
		n.Broadcast = func(n *Node, p *Payload) {
			q := p.clone()
			for _, m := range c.Nodes {
				if m.ID != n.ID {
					queue = append(queue, pendingMsg{q, m.ID})
				}
			}
		}
	}
	decided := func(n *Node) bool { return len(n.Accepted[target]) > 0 || n.Height >= target }
	// "nodes catch up from recovery messages, or from the ledger when the others already finished the height" (C09): once one node
	// has accepted the block, the application's block synchronisation brings the others to it; what the library owes is that
	// SOMEBODY decides. (A decided node only answers recovery requests; validators that have committed never send one.)
	any := func() bool {
		for _, n := range c.Nodes {
			if decided(n) {
				return true
			}
		}
		return false
	}
	all := any
	tpb := c.Nodes[0].Cfg.Tpb
	limit := c.Clk.Now + 60*tpb
	nonce := uint64(700)
	fired := map[int]bool{} // node id -> its armed timer has expired already (cleared by the next Timer.Reset)
	emit := func(n *Node, l *Line) {
		c.Emit(l)
		for _, cb := range l.Cb {
			if cb.K == "TimerReset" || cb.K == "TimerExtend" {
				fired[n.ID] = false
			}
		}
	}
	for steps := 0; !all() && steps < 4000; steps++ {
		nonce++
		rand.Reader = &fixedNonce{v: nonce}
		if len(queue) > 0 {
			pm := queue[0]
			queue = queue[1:]
			n := c.byID[pm.to]
			emit(n, n.Receive(pm.p.clone()))
			continue
		}
		var next *Node
		for _, n := range c.Nodes {
			if !decided(n) && n.Timer.Armed && !fired[n.ID] && (next == nil || n.Timer.Due < next.Timer.Due) {
				next = n
			}
		}
		if next == nil {
			break // somebody is undecided and nobody has a timer: a stall
		}
		if next.Timer.Due > c.Clk.Now {
			c.Clk.Now = next.Timer.Due
		}
		if c.Clk.Now > limit {
			break
		}
		fired[next.ID] = true
		emit(next, next.Timeout(next.Timer.H, next.Timer.V))
	}
	if any() { // ledger synchronisation
		for _, n := range c.Nodes {
			if !decided(n) {
				n.Height = target
			}
		}
	}
	return true
}
