package main

// Driver "open": ONE real node in an open environment. Every other validator
// is virtual: the environment may deliver any payload under any other
// identity (proposals, responses naming any known proposal or junk, commits
// and pre-commits valid for any known proposal or junk, change views,
// recovery requests and messages assembled from anything), fire timers with
// right or stale tags, supply requested or unrequested transactions, notify
// new transactions, move the ledger on (also skipping heights, changing the
// validator list and the node's own index) and call Reset, and make the
// application callbacks fail.  Node-local properties must hold whatever
// this environment does.

import (
	"crypto/rand"
	"fmt"
	mrand "math/rand"

	"github.com/nspcc-dev/dbft"
)

type openRun struct {
	tsShift int64 // shift pair, mode "inputs": forged payloads and ledger timestamps are those of the run at the base epoch
	c      *Cluster
	rng    *mrand.Rand
	n      *Node
	me     int
	nvals  map[uint32]int
	myIdx  map[uint32]int // index of the node at height h (-1: not a validator)
	props  map[[2]int][]*Payload
	nonce  uint64
	noDup  bool // never put a second entry into one cache map (keeps the run deterministic)
	tipSeq int
	flipWatch    bool // the application may set the watch-only flag at any moment (not in shift pairs)
	pendingReset bool // the application's ledger has moved on, Reset not called yet
}

func (o *openRun) vals(h uint32) []int {
	n, ok := o.nvals[h]
	if !ok {
		// not decided yet: same list as the nearest decided height below
		n = o.nvals[0]
		idx0 := o.myIdx[0]
		for k := h; k > 0; k-- {
			if v, ok := o.nvals[k]; ok {
				n, idx0 = v, o.myIdx[k]
				break
			}
		}
		o.nvals[h], o.myIdx[h] = n, idx0
	}
	idx := o.myIdx[h]
	// identities: validator i has key id i, except that the node under test
	// (key id 500) sits at position idx
	v := make([]int, n)
	for i := range v {
		v[i] = i
	}
	if idx >= 0 {
		v[idx] = 500
	}
	return v
}

func (o *openRun) setupPool() {
	n := o.n
	h := n.Height + 1
	n.Pool = nil
	n.Known = map[H]Tx{}
	n.BadTx = map[H]bool{}
	for k := 0; k < 3; k++ {
		t := Tx(fmt.Sprintf("t%d.%d", h, k))
		if o.rng.Intn(100) < 40 {
			n.Pool = append(n.Pool, t)
			n.Known[t.Hash()] = t
		} else if o.rng.Intn(100) < 50 {
			n.Known[t.Hash()] = t
		}
		if o.rng.Intn(100) < 6 {
			n.BadTx[t.Hash()] = true
		}
	}
}

func newOpenRun(out *TraceWriter, seed int64, run int, epoch int64, emitStart bool, nid int) *openRun {
	rng := mrand.New(mrand.NewSource(seed*1000003 + int64(run)))
	c := NewCluster(seed+int64(run), out)
	if emitStart && run%5 == 2 {
		c.Clk.Origin = FarOrigin // the injected clock lies far beyond the machine's date (traces stay relative to the origin)
	}
	c.Rng = rng
	c.Clk.Now = epoch
	o := &openRun{c: c, rng: rng, me: 500, nvals: map[uint32]int{}, myIdx: map[uint32]int{}, props: map[[2]int][]*Payload{}}
	n0 := []int{4, 4, 4, 4, 4, 7, 5, 6, 3, 2, 1, 10}[rng.Intn(12)]
	o.nvals[0] = n0
	o.myIdx[0] = rng.Intn(n0)
	c.Vals = o.vals
	cfg := NodeCfg{Tpb: 1000, Inc: uint64([]int{1, 1, 7}[rng.Intn(3)]), AmevH: -1}
	h0 := uint32(rng.Intn(7))
	switch rng.Intn(4) {
	case 0:
		cfg.AmevH = 0
	case 1:
		cfg.AmevH = int64(h0) + 2
	}
	if rng.Intn(100) < 35 {
		cfg.MaxTpb = 3000
	}
	cfg.Watch = rng.Intn(100) < 8
	n := NewNode(500, cfg, c, c.Clk)
	n.Broadcast = func(n *Node, p *Payload) {
		c.Pool = append(c.Pool, p.clone())
		c.PoolBy = append(c.PoolBy, n.ID)
	}
	n.RMsgOrder = func(k int) []int { return rng.Perm(k) }
	n.LaxVerify = run%3 == 1
	n.Height = h0
	n.TipTs = uint64(epoch) - uint64(rng.Intn(900)) // every absolute instant derives from the injected clock
	if h0 > 0 {
		n.TipHash = H(fmt.Sprintf("T:%d", h0))
	}
	c.Nodes = []*Node{n}
	c.byID[500] = n
	o.n = n
	o.setupPool()
	if emitStart {
		out.Write(RunStart{Call: "RunStart", Run: run, Seed: seed, Driver: "open", Nodes: []int{nid}, Faulty: []int{},
			Params: map[string]any{"n0": n0, "h0": h0, "myIndex": o.myIdx[0], "amevH": cfg.AmevH, "maxTpb": cfg.MaxTpb,
				"inc": cfg.Inc, "watch": cfg.Watch}})
	}
	return o
}

func runOpen(out *TraceWriter, seed int64, run int, steps int) {
	seedNonces(seed*7 + int64(run))
	o := newOpenRun(out, seed, run, 1000, true, 500)
	o.flipWatch = true
	o.c.Emit(o.n.Start())
	for s := 0; s < steps; s++ {
		if l := o.step(); l != nil {
			o.c.Emit(l)
		}
	}
}

// step performs one environment action and returns the trace line (nil if none).
func (o *openRun) step() *Line {
	rng, n, c := o.rng, o.n, o.c
	d := n.D
	if o.flipWatch && !n.Cfg.Watch && rng.Intn(300) == 0 {
		n.SetWatch() // the watch-only flag is set while the node is running
	}
	switch weighted(rng, []int{60, 12, 8, 7, 2, 5, 3, 3}) {
	case 0:
		if p := o.craft(); p != nil {
			if o.noDup && o.wouldDupInCache(p) {
				return nil
			}
			return n.Receive(p)
		}
	case 1: // timer
		if !n.Timer.Armed {
			return nil
		}
		if rng.Intn(100) < 12 {
			h, v := n.Timer.H, n.Timer.V
			switch rng.Intn(3) {
			case 0:
				v++
			case 1:
				if v > 0 {
					v--
				} else {
					h++
				}
			default:
				if h > 0 {
					h--
				}
			}
			return n.Timeout(h, v)
		}
		if n.Timer.Due > c.Clk.Now {
			c.Clk.Now = n.Timer.Due
		}
		return n.Timeout(n.Timer.H, n.Timer.V)
	case 2: // transaction
		if m := d.MissingTransactions; len(m) > 0 {
			switch r := rng.Intn(100); {
			case r < 66:
				return n.Transaction(Tx(pick(rng, m)))
			case r < 80: // a transaction nobody asked for, while the node waits for others (it must not count towards the proposal)
				return n.Transaction(Tx(fmt.Sprintf("t%d.%d", d.BlockIndex, 7+rng.Intn(2))))
			}
		}
		if len(n.Requested) > 0 && rng.Intn(100) < 70 {
			return n.Transaction(Tx(pick(rng, n.Requested))) // possibly a late answer to an earlier view's request
		}
		return n.Transaction(Tx(fmt.Sprintf("t%d.%d", d.BlockIndex, rng.Intn(4))))
	case 3: // ledger moves on + Reset
		if o.pendingReset {
			o.pendingReset = false
			o.setupPool()
			return n.Reset()
		}
		blockDone := d.VerifSnapshot().BlockProcessed
		if !blockDone && rng.Intn(100) < 75 {
			return nil
		}
		jump := uint32(1)
		if rng.Intn(100) < 20 {
			jump += uint32(rng.Intn(3))
		}
		nh := n.Height + jump
		if acc := n.Accepted[n.Height+1]; len(acc) > 0 && jump == 1 {
			n.AdvanceLedger(acc[0])
		} else {
			o.tipSeq++
			n.Height, n.TipHash, n.TipTs = nh, H(fmt.Sprintf("T:%d.%d", nh, o.tipSeq)), uint64(c.Clk.Now-o.tsShift)-uint64(rng.Intn(500))
		}
		if _, decided := o.nvals[n.Height+1]; decided {
			// payloads for that height were already crafted against this list
		} else if rng.Intn(100) < 25 { // validator list changes for the next height
			nn := []int{1, 2, 3, 4, 4, 5, 6, 7, 10}[rng.Intn(9)]
			o.nvals[n.Height+1] = nn
			if rng.Intn(100) < 12 {
				o.myIdx[n.Height+1] = -1
			} else {
				o.myIdx[n.Height+1] = rng.Intn(nn)
			}
		} else {
			o.nvals[n.Height+1] = len(d.Validators)
			if d.MyIndex >= 0 || rng.Intn(2) == 0 {
				idx := d.MyIndex
				if idx < 0 {
					idx = rng.Intn(len(d.Validators))
				}
				o.myIdx[n.Height+1] = idx
			} else {
				o.myIdx[n.Height+1] = -1
			}
		}
		if rng.Intn(100) < 30 {
			// the application has the new tip (fetched from a peer, or its own block) but calls Reset only later: until then the
			// node stays at its height and the library must not look at the ledger
			o.pendingReset = true
			return nil
		}
		o.setupPool()
		return n.Reset()
	case 4: // new transaction notification
		if rng.Intn(2) == 0 {
			t := Tx(fmt.Sprintf("t%d.%d", n.Height+1, rng.Intn(3)))
			if indexOfTx(n.Pool, t) < 0 {
				n.Pool = append(n.Pool, t)
			}
			n.Known[t.Hash()] = t
		}
		return n.NewTransaction()
	case 5:
		c.Clk.Now += int64(rng.Intn(700))
	case 6: // application knobs
		switch rng.Intn(6) {
		case 0:
			n.FailPreBlock = 1 + rng.Intn(2)
		case 1:
			n.FailBlock = 1
		case 2:
			k := rng.Intn(50)
			n.RejectPayload = func(p *Payload) bool { return (int(p.T)+3*int(p.From)+int(p.V)+k)%7 == 0 }
		case 3:
			n.NilBlock = rng.Intn(3) == 0
		default:
			n.RejectPayload = nil
			n.NilBlock = false
		}
	case 7: // garbage
		vals := len(d.Validators)
		h, v := d.BlockIndex, d.ViewNumber
		var p *Payload
		switch rng.Intn(6) {
		case 0:
			p = mkCV(h, v, vals+rng.Intn(3), v+1, 0)
		case 1:
			if h == 0 {
				return nil
			}
			p = mkCommit(h-1, v, rng.Intn(vals), []byte("old"))
		case 2:
			p = &Payload{T: dbft.PrepareResponseType, Ht: h, V: v, From: uint16(rng.Intn(vals)), Body: nil}
		case 3:
			p = mkRReq(h, v, vals, 0)
		case 4:
			p = &Payload{T: dbft.MessageType(0x77), Ht: h, V: v, From: uint16(rng.Intn(vals)), Body: &RReqBody{}}
		default:
			p = mkReq(h+1+uint32(rng.Intn(2)), 0, rng.Intn(vals), uint64(c.Clk.Now-o.tsShift), 7, nil)
		}
		return n.Receive(p)
	}
	return nil
}

func (o *openRun) wouldDupInCache(p *Payload) bool {
	d := o.n.D
	future := p.Ht > d.BlockIndex || (p.Ht == d.BlockIndex && p.V > d.ViewNumber && p.T != dbft.ChangeViewType && p.T != dbft.RecoveryMessageType)
	if !future {
		return false
	}
	in, ok := d.VerifSnapshot().Cache[p.Ht]
	if !ok {
		return false
	}
	switch p.T {
	case dbft.PrepareRequestType, dbft.PrepareResponseType:
		return len(in.Prepare) > 0
	case dbft.ChangeViewType:
		return len(in.ChViews) > 0
	case dbft.PreCommitType:
		return len(in.PreCommit) > 0
	case dbft.CommitType:
		return len(in.Commit) > 0
	}
	return false
}

// craft builds one payload of a virtual peer (or, rarely, under the node's own index).
func (o *openRun) craft() *Payload {
	rng, n, c := o.rng, o.n, o.c
	d := n.D
	h, v := d.BlockIndex, d.ViewNumber
	nv := len(d.Validators)
	if nv == 0 {
		return nil
	}
	ph, pv := h, v
	switch rng.Intn(12) {
	case 0:
		pv = v + 1
	case 1:
		if v > 0 {
			pv = v - 1
		}
	case 2:
		ph = h + 1
		pv = byte(rng.Intn(2))
	}
	myIdx := d.MyIndex
	if ph != h {
		vl := o.vals(ph)
		nv, myIdx = len(vl), indexOf(vl, 500)
	}
	// the node's own genuine payloads may come back (echo, relays); nobody can forge its identity
	if len(c.Pool) > 0 && rng.Intn(100) < 6 {
		return pick(rng, c.Pool)
	}
	from := rng.Intn(nv)
	if from == myIdx {
		if nv == 1 {
			return nil
		}
		from = (from + 1 + rng.Intn(nv-1)) % nv
	}
	signer := from // key id of virtual validator i is i
	primary := (int(ph) - int(pv)) % nv
	if primary < 0 {
		primary += nv
	}
	var props []*Payload
	for _, p := range c.Pool {
		if p.T == dbft.PrepareRequestType && p.Ht == ph && p.V == pv {
			props = append(props, p)
		}
	}
	props = append(props, o.props[[2]int{int(ph), int(pv)}]...)
	prev := d.PrevHash
	if ph != h {
		prev = H(fmt.Sprintf("T:%d.x", ph-1))
	}
	switch weighted(rng, []int{16, 20, 22, 12, 12, 4, 10}) {
	case 0: // proposal
		if primary == myIdx {
			return nil // only the node itself proposes under its identity
		}
		l := o.props[[2]int{int(ph), int(pv)}]
		fromP := primary
		if rng.Intn(100) < 10 {
			fromP = from // a proposal from a non-primary: inadmissible
		}
		if len(l) < 2 && (len(l) == 0 || rng.Intn(3) == 0) {
			o.nonce++
			var txs []H
			for k := 0; k < 3; k++ {
				if rng.Intn(3) == 0 {
					txs = append(txs, H(fmt.Sprintf("t%d.%d", ph, k)))
				}
			}
			ts := rel(d.VerifSnapshot().LastBlockTimestamp, n.Clk.Origin) + uint64(1+rng.Intn(3))*n.Cfg.Inc
			switch rng.Intn(6) { // nobody checks a proposal's timestamp but the application
			case 0:
				ts = uint64(c.Clk.Now-o.tsShift) + uint64(1000+rng.Intn(5000))
			case 1:
				ts = uint64(c.Clk.Now-o.tsShift) / n.Cfg.Inc * n.Cfg.Inc
			}
			q := mkReq(ph, pv, fromP, ts, 2000+o.nonce, txs)
			if fromP == primary {
				o.props[[2]int{int(ph), int(pv)}] = append(l, q)
			}
			return q
		}
		q := pick(rng, l).clone()
		q.From = uint16(fromP)
		return q
	case 1: // response
		if len(props) > 0 && rng.Intn(100) < 88 {
			return mkResp(ph, pv, from, pick(rng, props).Hash())
		}
		return mkResp(ph, pv, from, H(fmt.Sprintf("R|%d|%d|%d|0|junk%d|", ph, pv, primary, rng.Intn(2))))
	case 2: // commit
		if len(props) > 0 && rng.Intn(100) < 88 {
			br := blockRecOf(pick(rng, props), prev)
			return mkCommit(ph, pv, from, MakeSig(signer, br.hash("B")))
		}
		return mkCommit(ph, pv, from, []byte(fmt.Sprintf("junk%d", rng.Intn(2))))
	case 3: // pre-commit
		if len(props) > 0 && rng.Intn(100) < 88 {
			br := blockRecOf(pick(rng, props), prev)
			return mkPreCommit(ph, pv, from, MakeData(signer, br.hash("PB")))
		}
		return mkPreCommit(ph, pv, from, []byte(fmt.Sprintf("junk%d", rng.Intn(2))))
	case 4: // change view
		return mkCV(ph, pv, from, pv+1+byte(rng.Intn(10)/8), uint64(c.Clk.Now-o.tsShift))
	case 5:
		return mkRReq(ph, pv, from, uint64(c.Clk.Now-o.tsShift))
	default: // recovery message
		rm := &RMsgBody{}
		used := map[string]bool{}
		add := func(q *Payload) {
			k := fmt.Sprintf("%d/%d", q.T, q.From)
			if q.T == dbft.PrepareRequestType || q.T == dbft.PrepareResponseType {
				k = fmt.Sprintf("p/%d", q.From)
			}
			if !used[k] {
				used[k] = true
				rm.AddPayload(q)
			}
		}
		var pr *Payload
		if len(props) > 0 {
			pr = pick(rng, props)
			if rng.Intn(100) < 70 {
				add(pr)
			}
		}
		for i := 0; i < nv; i++ {
			if i == primary || rng.Intn(100) < 50 {
				continue
			}
			if i == myIdx { // only genuine own payloads can be relayed
				for _, k := range rng.Perm(len(c.Pool)) {
					q := c.Pool[k]
					if q.Ht == ph && int(q.From) == i && q.T != dbft.RecoveryMessageType && q.T != dbft.RecoveryRequestType &&
						!((q.T == dbft.PrepareRequestType || q.T == dbft.PrepareResponseType) && q.V != pv) {
						add(q)
						break
					}
				}
				continue
			}
			sg := i
			switch rng.Intn(5) {
			case 0:
				if pr != nil {
					add(mkResp(ph, pv, i, pr.Hash()))
				}
			case 1:
				if pr != nil {
					add(mkCommit(ph, byte(int(pv)-rng.Intn(2)*int(min(pv, 1))), i, MakeSig(sg, blockRecOf(pr, prev).hash("B"))))
				}
			case 2:
				if pr != nil {
					add(mkPreCommit(ph, pv, i, MakeData(sg, blockRecOf(pr, prev).hash("PB"))))
				}
			case 3:
				if pv > 0 {
					add(mkCV(ph, pv-1, i, pv+byte(rng.Intn(2)), uint64(c.Clk.Now-o.tsShift)))
				}
			default:
				add(mkCV(ph, pv, i, pv+1, uint64(c.Clk.Now-o.tsShift)))
			}
		}
		return &Payload{T: dbft.RecoveryMessageType, Ht: ph, V: pv, From: uint16(from), Body: rm}
	}
}

// Pair is one step of driver "shift" (C14): the same environment action applied to two nodes whose
// injected clocks differ by Delta.
type Pair struct {
	Call  string `json:"call"` // "Pair"
	Run   int    `json:"run"`
	I     int    `json:"i"`
	Delta int64  `json:"delta"`
	Mode  string `json:"mode"` // "world": everything absolute shifts with the clock; "inputs": identical inputs (payload and ledger timestamps), only the clock differs
	A     *Line  `json:"a"`
	B     *Line  `json:"b"`
}

// runShift: the open driver twice in lockstep, same seed, clocks E and E + delta.
func runShift(out *TraceWriter, seed int64, run int, steps int) {
	rsel := mrand.New(mrand.NewSource(seed*77 + int64(run)))
	delta := []int64{7000, 700000, 999999994, 70, 7000000}[rsel.Intn(5)]
	base := int64(5000 + 7*rsel.Intn(1000))
	srcA := &detReader{r: mrand.New(mrand.NewSource(seed*7 + int64(run)))}
	srcB := &detReader{r: mrand.New(mrand.NewSource(seed*7 + int64(run)))}
	rand.Reader = srcA
	a := newOpenRun(out, seed, run, base, false, 500)
	rand.Reader = srcB
	b := newOpenRun(out, seed, run, base+delta, false, 500)
	a.noDup, b.noDup = true, true
	if run%4 == 1 {
		// the second clock also lies two centuries beyond the machine's date (traces stay relative to the origin): "the result
		// does not depend on the machine's wall clock" on both sides of it
		b.c.Clk.Origin = FarOrigin
	}
	mode := "world"
	if run%3 == 2 {
		mode = "inputs"
		b.tsShift = delta
		b.n.TipTs = a.n.TipTs
	}
	out.Write(RunStart{Call: "RunStart", Run: run, Seed: seed, Driver: "shift", Nodes: []int{500}, Faulty: []int{},
		Params: map[string]any{"delta": delta, "base": base, "n0": a.nvals[0], "myIndex": a.myIdx[0], "mode": mode, "farOrigin": b.c.Clk.Origin > 0}})
	i := 0
	emit := func(la, lb *Line) bool {
		if (la == nil) != (lb == nil) {
			la, lb = nonNil(la), nonNil(lb)
		}
		if la == nil {
			return true
		}
		i++
		la.I, lb.I = i, i
		out.Write(Pair{Call: "Pair", Run: run, I: i, Delta: delta, Mode: mode, A: la, B: lb})
		// replay order of cached payloads is random as soon as one cache map holds two entries:
		// the two runs may then legitimately differ, stop comparing
		for _, o := range []*openRun{a, b} {
			for _, in := range o.n.D.VerifSnapshot().Cache {
				if len(in.Prepare) > 1 || len(in.ChViews) > 1 || len(in.PreCommit) > 1 || len(in.Commit) > 1 {
					return false
				}
			}
		}
		return la.Panic == "" && lb.Panic == ""
	}
	rand.Reader = srcA
	la := a.n.Start()
	rand.Reader = srcB
	lb := b.n.Start()
	if !emit(la, lb) {
		return
	}
	for s := 0; s < steps; s++ {
		rand.Reader = srcA
		la = a.step()
		rand.Reader = srcB
		lb = b.step()
		if !emit(la, lb) {
			return
		}
	}
}

func nonNil(l *Line) *Line {
	if l == nil {
		return &Line{Call: "None", Arg: NoArg{}, Cb: []CbRec{}, Post: &PState{Txs: []string{}, Have: []string{}, Missing: []string{}, Vals: []int{},
			Prep: []Slot{}, Pc: []Slot{}, Cm: []Slot{}, Cv: []Slot{}, LastCv: []Slot{}, Seen: []Slot{}, Cache: []InboxRec{}, Timer: TimerRec{K: "none"}},
			Ledger: LedgerRec{Vals: []int{}}, App: AppRec{Known: []string{}, Pool: []string{}, Bad: []string{}}}
	}
	return l
}
