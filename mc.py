"""Design checks: TLC explores the open single-node composition (spec/MC_Node.tla) and the closed
N-node composition (spec/MC_Net.tla) of the implementation-shaped specification spec/DbftNode.tla."""
import os, re, shutil, subprocess, time, json, sys
from concurrent.futures import ThreadPoolExecutor
import vlib
from vlib import Infra

NODE_INVS = ['OneProposalPerView', 'OneResponsePerView', 'OneCommit', 'OnePreCommit', 'CommitEvidence', 'ViewEvidence', 'ResponseEvidence',
             'OneDecision', 'PreBlockOnce', 'PhaseOrder', 'AmevOff', 'TimerOK', 'Silent', 'HeldTxsBelong', 'PrimaryOK']
# which model invariants speak for which property
INV_PROP = {'OneProposalPerView': 'C03', 'OneResponsePerView': 'C03', 'OneCommit': 'C03', 'OnePreCommit': 'C03', 'CommitLock': 'C03',
            'CommitEvidence': 'C04', 'ViewEvidence': 'C04', 'ResponseEvidence': 'C04', 'OneDecision': 'C05', 'PreBlockOnce': 'C07',
            'PhaseOrder': 'C07', 'AmevOff': 'C07', 'TimerOK': 'C10', 'Silent': 'C13', 'HeldTxsBelong': 'C11', 'PrimaryOK': 'C06',
            'PreCertificate': 'C02', 'Certificate': 'C02', 'CommitNeedsPreCommits': 'C07', 'LockNeedsPreparations': 'C04', 'ResetClean': 'C05', 'EarlyUsed': 'C05',
            'SilentStep': 'C13', 'MinGap': 'C16', 'EmptyAfterMax': 'C16', 'ExactGapWhenOff': 'C16', 'NotLate': 'C16', 'Prompt': 'C16', 'SubscribeOnlyIfOn': 'C16',
            'Answers': 'C12', 'Termination': 'C09', 'ViewBound': 'C09', 'TimersArmed': 'C10',
            'ShiftInvariant': 'C14', 'NeverAsks': 'C08', 'View0': 'C08', 'Decides': 'C08', 'TheBlock': 'C08'}

ORD_PROPS = ('CommitLock', 'PreCertificate', 'CommitNeedsPreCommits', 'LockNeedsPreparations')
ECHO_INVS = ['OneDecision', 'PreBlockOnce', 'PhaseOrder', 'AmevOff', 'TimerOK', 'Silent', 'HeldTxsBelong', 'PrimaryOK', 'ViewEvidence']

MODULE_DEPS = {'MC_NodeCover': ['MC_Node'], 'MC_NodeOrd': ['MC_NodeCover', 'MC_Node'], 'MC_DynShift': ['MC_Dyn', 'ShiftInv'], 'MC_LiveShift': ['MC_Live', 'ShiftInv']}   # modules a root module EXTENDS (besides DbftNode)

def node_cfg(name, me=1, h=2, maxview=1, amev=False, watch=False, dyn=False, family=('core',), dev=True, weaken=(), invs=None, n=4,
             emit=False, emitlen=0, props=('CommitLock', 'PreCertificate'), ord=False):
    invs = NODE_INVS if invs is None else invs
    fam = '{' + ', '.join('"%s"' % f for f in family) + '}'
    wk = '{' + ', '.join('"%s"' % f for f in weaken) + '}'
    b = lambda v: 'TRUE' if v else 'FALSE'
    txt = ('SPECIFICATION Spec\nCONSTANTS\n  N = %d\n  Me = %d\n  H = %d\n  MaxView = %d\n  AmevOn = %s\n  WatchFlag = %s\n  DynOn = %s\n'
           '  Family = %s\n  DevEarlyCommitUnverified = %s\n  Weaken = %s\n  Emit = %s\n  EmitLen = %d\n  CoverMod = 1\nCONSTRAINT ViewBound\nVIEW View\n'
           % (n, me, h, maxview, b(amev), b(watch), b(dyn), fam, b(dev), wk, b(emit), emitlen))
    if ord:
        txt = txt.replace('SPECIFICATION Spec\n', 'SPECIFICATION SpecOrd\n')
    if invs or emit:
        txt += 'INVARIANTS ' + ' '.join(list(invs) + (['EmitBehaviour'] if emit else [])) + '\n'
    if props and not emit:
        txt += 'PROPERTY ' + ' '.join(props) + '\n'
    txt += 'CHECK_DEADLOCK FALSE\n'
    return dict(name=name, module='MC_NodeOrd' if ord else 'MC_Node', cfg=txt)

NODE_FAMILIES = {
    # small, run fresh by every check of a node-local property
    'quick': [
        node_cfg('core-v0-backup', me=1, maxview=0),
        node_cfg('core-v0-primary', me=2, maxview=0),
        node_cfg('watch', me=2, watch=True),
        node_cfg('amev-v0', me=1, amev=True, maxview=0, family=('core', 'junk1')),
        node_cfg('kf1-regression', me=1, maxview=0, family=('core', 'junk1'), invs=['Certificate'], props=()),      # must FIND the KF-1 counterexample
        node_cfg('next1-v0', me=1, maxview=0, family=('core', 'next1'), props=('CommitLock', 'PreCertificate', 'ResetClean', 'EarlyUsed')),
        node_cfg('kf1-fixed-model', me=1, maxview=0, family=('core', 'junk1'), dev=False, invs=['Certificate'], props=()),  # and nothing else
    ],
    # minutes each: computed once per specification version (cached by the hash of spec/*.tla), reported by every check
    'cached': [
        node_cfg('core-backup-then-primary', me=1),
        node_cfg('junk1', me=1, family=('core', 'junk1')),
        node_cfg('amev', me=1, amev=True),
        node_cfg('next-v0', me=1, maxview=0, family=('core', 'next'), props=('CommitLock', 'PreCertificate', 'ResetClean', 'EarlyUsed')),
    ],
    # restarted validators (family "echo": payloads of the previous incarnation come back); the commit-evidence invariants speak
    # about what THIS incarnation decided and are not meaningful here
    'echo': [
        node_cfg('watch-echo', me=2, watch=True, amev=True, maxview=0, family=('core', 'echo'), invs=ECHO_INVS, props=('PreCertificate',)),
        node_cfg('watch-echo-backup', me=1, watch=True, amev=True, maxview=0, family=('core', 'echo'), invs=ECHO_INVS, props=('PreCertificate',)),
        node_cfg('echo-v0', me=1, maxview=0, family=('core', 'echo'), invs=ECHO_INVS, props=('PreCertificate',)),
        node_cfg('echo-primary-v0', me=2, maxview=0, family=('core', 'echo'), invs=ECHO_INVS, props=('PreCertificate',)),
        node_cfg('echo-amev-v0', me=1, amev=True, maxview=0, family=('core', 'echo'), invs=[i for i in ECHO_INVS if i != 'PhaseOrder'], props=('PreCertificate',)),   # PhaseOrder speaks about this incarnation's own pre-commit
    ],
    # the watch-only flag is set while the validator runs (family "flip")
    'flip': [
        node_cfg('flip-v0', me=1, maxview=0, family=('core', 'flip'), props=('CommitLock', 'PreCertificate', 'SilentStep')),
        node_cfg('flip-primary-v0', me=2, maxview=0, family=('core', 'flip'), props=('CommitLock', 'PreCertificate', 'SilentStep')),
        node_cfg('flip-amev-v0', me=1, amev=True, maxview=0, family=('core', 'flip'), props=('CommitLock', 'PreCertificate', 'SilentStep')),
        node_cfg('flip-v1', me=1, maxview=1, family=('core', 'flip'), props=('CommitLock', 'PreCertificate', 'SilentStep')),
    ],
    # sender-order reduction (spec/MC_NodeOrd.tla): two and three views, the anti-MEV phase across a view change - small enough for
    # exhaustive design checks and state covers
    'ord': [
        node_cfg('ord-core', me=1, ord=True, props=ORD_PROPS),
        node_cfg('ord-amev', me=1, amev=True, ord=True, props=ORD_PROPS),
        node_cfg('ord-amev-backup', me=3, amev=True, ord=True, props=ORD_PROPS),
        node_cfg('ord-core-v2', me=1, maxview=2, ord=True, props=ORD_PROPS),
        # recovery messages (proposal + responses + commits from a relay) and the step to the next height
        node_cfg('ord-rec-next1-v0', me=1, maxview=0, ord=True, family=('core', 'recovery', 'next1'), props=('CommitLock', 'PreCertificate', 'ResetClean', 'EarlyUsed')),
    ],
    'cover': [
        node_cfg('amev-v0s', me=1, amev=True, maxview=0),
        node_cfg('tx-v0', me=1, maxview=0, family=('core', 'tx', 'app')),
        node_cfg('dyn-v0', me=2, maxview=0, dyn=True, family=('core', 'tx')),
        node_cfg('rec-v0', me=1, maxview=0, family=('core', 'recovery')),
    ],
    'thorough': [
        node_cfg('core-primary-v0', me=2),
        node_cfg('equiv', me=1, family=('core', 'equiv')),
        node_cfg('recovery', me=1, family=('core', 'recovery')),
        node_cfg('tx-app', me=1, family=('core', 'tx', 'app')),
        node_cfg('amev-junk1', me=1, amev=True, family=('core', 'junk1')),
        node_cfg('amev-app', me=3, amev=True, family=('core', 'tx', 'app')),
        node_cfg('dyn', me=2, dyn=True, family=('core', 'tx')),
        node_cfg('dyn-backup', me=1, dyn=True, family=('core', 'tx')),
        node_cfg('n7', me=1, n=7, h=2),
        node_cfg('views3', me=1, maxview=2),
    ],
}

def sync_cfg(name, n=4, me=1, h=2, amev=False, two=True):
    b = lambda v: 'TRUE' if v else 'FALSE'
    txt = ('SPECIFICATION Spec\nCONSTANTS\n  N = %d\n  Me = %d\n  H = %d\n  AmevOn = %s\n  TwoHeights = %s\n  Emit = FALSE\n  CoverMod = 1\n'
           'VIEW View\nINVARIANTS NeverAsks View0 Decides TheBlock\nCHECK_DEADLOCK FALSE\n' % (n, me, h, b(amev), b(two)))
    return dict(name=name, module='MC_Sync', cfg=txt)

# C08 at design level: every delivery order of a fault-free synchronous run, one node at a time (spec/MC_Sync.tla)
SYNC_FAMILIES = [sync_cfg('sync-backup', me=1), sync_cfg('sync-primary-first', me=2), sync_cfg('sync-primary-second', me=3),
                 sync_cfg('sync-backup-far', me=0),
                 sync_cfg('sync-amev-backup', me=1, amev=True), sync_cfg('sync-amev-primary', me=2, amev=True),
                 sync_cfg('sync-n7-backup', n=7, me=1, two=False), sync_cfg('sync-n7-primary', n=7, me=2, two=False)]

def dyn_cfg(name, dyn=True, amev=False, heights=3):
    b = lambda v: 'TRUE' if v else 'FALSE'
    txt = ('SPECIFICATION Spec\nCONSTANTS\n  DynOn = %s\n  AmevOn = %s\n  Heights = %d\n  Emit = FALSE\n  CoverMod = 1\nCONSTRAINT TimeBound\nVIEW View\n'
           'INVARIANTS MinGap EmptyAfterMax ExactGapWhenOff NotLate Prompt NeverAsks SubscribeOnlyIfOn View0 TimerOK\nCHECK_DEADLOCK FALSE\n' % (b(dyn), b(amev), heights))
    return dict(name=name, module='MC_Dyn', cfg=txt)

# C16 at design level: a single-validator network against a clock (spec/MC_Dyn.tla)
DYN_FAMILIES = [dyn_cfg('dyn-on'), dyn_cfg('dyn-off', dyn=False), dyn_cfg('dyn-on-amev', amev=True), dyn_cfg('dyn-on-long', heights=5)]

def live_cfg(name, n=4, silent=(2,), cutsets=(), heal=0, amev=False, maxview=3, anytime=False, restart=(), crash=False):
    b = lambda v: 'TRUE' if v else 'FALSE'
    st = lambda xs: '{' + ', '.join(str(x) for x in xs) + '}'
    txt = ('SPECIFICATION Spec\nCONSTANTS\n  N = %d\n  H = 2\n  Silent = %s\n  CutSets = {%s}\n  CutAnyTime = %s\n  HealAfter = %d\n  RestartSet = %s\n  RestartAnyTime = %s\n  AmevOn = %s\n  MaxView = %d\n  Emit = FALSE\n  CoverMod = 1\n'
           'CONSTRAINT Bound\nINVARIANTS Agreement ViewBound TimersArmed\nPROPERTY Termination\nCHECK_DEADLOCK FALSE\n'
           % (n, st(silent), ', '.join(st(c) for c in cutsets), b(anytime), heal, st(restart), b(crash), b(amev), maxview))
    return dict(name=name, module='MC_Live', cfg=txt)

# C14 at design level: the specification is clock-shift invariant in every reachable state of the timed compositions (spec/ShiftInv.tla)
def shift_cfg(base):
    it = dict(base, name='shift-' + base['name'], module={'MC_Dyn': 'MC_DynShift', 'MC_Live': 'MC_LiveShift'}[base['module']])
    it['cfg'] = base['cfg'].replace('PROPERTY Termination\n', 'VIEW View\n').replace('INVARIANTS ', 'INVARIANTS ShiftInvariant ')
    return it

# C09 at design level: closed synchronous composition with silent / cut-off validators, liveness under fairness (spec/MC_Live.tla)
LIVE_FAMILIES = [live_cfg('live-silent-primary', silent=(2,)), live_cfg('live-silent-backup', silent=(1,)),
                 live_cfg('live-silent-primary-amev', silent=(2,), amev=True),
                 live_cfg('live-silent-primary-cut1', silent=(2,), cutsets=((1,),), heal=2, maxview=4),
                 live_cfg('live-silent-primary-cutany', silent=(2,), cutsets=((1,), (3,), (0,)), heal=1, maxview=4),
                 live_cfg('live-silent-primary-restart', silent=(2,), restart=(1,), maxview=4),
                 live_cfg('live-cut-backup', silent=(), cutsets=((1,),), heal=1),
                 # a validator crashes in the middle of a round (payloads on their way to it are lost) and restarts with empty state
                 live_cfg('live-silent-primary-crash1', silent=(2,), restart=(1,), maxview=4, crash=True),
                 live_cfg('live-silent-primary-crash0', silent=(2,), restart=(0,), maxview=4, crash=True),
                 live_cfg('live-silent-primary-crash3', silent=(2,), restart=(3,), maxview=4, crash=True),

                 ]

SHIFT_FAMILIES = [shift_cfg(DYN_FAMILIES[0]), shift_cfg(DYN_FAMILIES[2]), shift_cfg(DYN_FAMILIES[3]), shift_cfg(LIVE_FAMILIES[0]), shift_cfg(LIVE_FAMILIES[2]), shift_cfg(LIVE_FAMILIES[5])]

def tx_cfg(name, me=0, amev=False, maxview=1):
    b = lambda v: 'TRUE' if v else 'FALSE'
    txt = ('SPECIFICATION Spec\nCONSTANTS\n  N = 4\n  Me = %d\n  AmevOn = %s\n  MaxView = %d\n  Emit = FALSE\n  CoverMod = 1\nCONSTRAINT ViewBound\nVIEW View\n'
           'INVARIANTS Answers\nCHECK_DEADLOCK FALSE\n' % (me, b(amev), maxview))
    return dict(name=name, module='MC_Tx', cfg=txt)

# C12 at design level: the transaction path of one backup (spec/MC_Tx.tla)
TX_FAMILIES = [tx_cfg('tx-backup0', me=0), tx_cfg('tx-backup3', me=3), tx_cfg('tx-backup0-amev', me=0, amev=True)]

def run_tlc(item, wd, workers=4, cap=1800, simulate=None, cover=0):
    sd = os.path.join(wd, 'mc-' + item['name']); os.makedirs(sd, exist_ok=True)
    for f in ['DbftNode.tla', item['module'] + '.tla'] + [m + '.tla' for m in MODULE_DEPS.get(item['module'], [])]:
        shutil.copy(os.path.join(vlib.VERIF, 'spec', f), sd)
    cfg = item['cfg'] if (simulate and not simulate.get('dump')) else item['cfg'].replace('Emit = FALSE', 'Emit = TRUE')   # carry the schedule (hidden by VIEW)
    if item['module'] == 'MC_Live' and not cover:
        cfg = item['cfg']     # temporal property: no VIEW, so the schedule must not be part of the state
    if cover and item['module'] == 'MC_Live':
        cfg = cfg.replace('PROPERTY Termination\n', 'VIEW View\n')     # the schedule must not split states; no temporal property in this run
    if cover:   # print the stored schedule of every state (EmitCover)
        inv = 'EmitCover2' if item['module'] in ('MC_NodeCover', 'MC_NodeOrd') else 'EmitCover'
        cfg = cfg.replace('INVARIANTS ', 'INVARIANTS %s ' % inv) if 'INVARIANTS ' in cfg else cfg + 'INVARIANTS %s\n' % inv
        cfg = cfg.replace('CoverMod = 1', 'CoverMod = %d' % cover)
    open(os.path.join(sd, 'mc.cfg'), 'w').write(cfg)
    cex = os.path.join(sd, 'cex.json')
    cmd = ['java', '-Xmx8g', '-Xss256m', '-XX:+UseParallelGC', '-cp', vlib.JAVA_CP, 'tlc2.TLC', '-workers', str(workers),
           '-metadir', os.path.join(sd, 'md'), '-config', 'mc.cfg'] + ([] if (simulate and not simulate.get('dump')) else ['-dumpTrace', 'json', cex])
    if simulate:
        cmd += ['-simulate', 'num=%d' % simulate['num'], '-depth', str(simulate['depth']), '-seed', str(simulate['seed'])]
    if item.get('root'):
        open(os.path.join(sd, item['root'][0] + '.tla'), 'w').write(item['root'][1])
        cmd += [item['root'][0] + '.tla']
    else:
        cmd += [item['module'] + '.tla']
    t0 = time.time()
    try:
        r = subprocess.run(cmd, cwd=sd, stdout=subprocess.PIPE, stderr=subprocess.STDOUT, text=True, timeout=cap)
        out, timed_out = r.stdout, False
    except subprocess.TimeoutExpired as e:
        out, timed_out = (e.stdout.decode() if isinstance(e.stdout, bytes) else (e.stdout or '')), True
    res = dict(name=item['name'], module=item['module'], wall_s=round(time.time() - t0, 1), generated=0, distinct=0, depth=0,
               completed=False, violated=None, timed_out=timed_out)
    mm = re.findall(r'(\d[\d,]*) states generated.*?(\d[\d,]*) distinct states found', out)
    if mm:
        res['generated'], res['distinct'] = int(mm[-1][0].replace(',', '')), int(mm[-1][1].replace(',', ''))
    sm = re.findall(r'Progress: (\d+) states checked, (\d+) traces generated', out)
    if sm:
        res['generated'], res['traces'] = int(sm[-1][0]), int(sm[-1][1])
        res['distinct'] = res['distinct'] or res['generated']
    dm = re.search(r'depth of the complete state graph search is (\d+)', out)
    if dm:
        res['depth'] = int(dm.group(1))
    v = re.search(r'Invariant (\w+) is violated', out) or re.search(r'Action property (\w+) is violated', out)
    if not v and 'Temporal properties were violated' in out:
        v = re.match(r'(Termination)', 'Termination')
    if v:
        res['violated'] = v.group(1)
        res['trace_actions'] = len(re.findall(r'^State \d+:', out, re.M))
        try:
            d = json.load(open(cex))
            res['schedule'] = d['counterexample']['state'][-1][1]['hist']['evs']
        except Exception as e:
            res['schedule'] = None
    elif 'Model checking completed. No error has been found.' in out or (simulate and 'The number of states generated' in out):
        res['completed'] = True
    elif not timed_out and not simulate:
        shutil.rmtree(sd, ignore_errors=True)
        raise Infra('TLC failed on %s:\n%s' % (item['name'], out[-2500:]))
    res['stdout'] = out if (cover or (simulate and not simulate.get('dump'))) else ''
    shutil.rmtree(sd, ignore_errors=True)
    return res

def cover_behaviours(item, wd, out_file, cap=1500, mod=1):
    """State cover (spec -> code): breadth-first exploration of a configuration; every distinct state is printed with the
    schedule that reached it; the leaves of the resulting prefix tree are written as behaviours for the script driver. MC_Node
    configurations are explored through MC_NodeCover, which also prints, per state, the calls that are no-ops there (probes):
    they are inserted into the schedules at that state, once per state."""
    if item['module'] == 'MC_Node':
        item = dict(item, module='MC_NodeCover')
    r = run_tlc(item, wd, workers=1, cap=cap, cover=mod)
    uniq, parents, probes = {}, set(), {}
    for ln in r['stdout'].splitlines():
        try:
            if ln.startswith('<<"COVER", "'):
                evs = json.loads(json.loads(ln.strip()[len('<<"COVER", '):-2]))
                pr = None
            elif ln.startswith('<<"COVER2", "'):
                a, b, c = json.loads('[' + ln.strip()[len('<<"COVER2", '):-2] + ']')
                evs, pr = json.loads(a), (json.loads(b), json.loads(c))
            else:
                continue
        except Exception:
            continue     # a line torn by concurrent output
        k = json.dumps(evs, sort_keys=True)
        uniq[k] = evs
        parents.add(json.dumps(evs[:-1], sort_keys=True))
        if pr and pr[0]:
            probes[k] = pr
    leaves = [s for k, s in uniq.items() if k not in parents]
    leaves.sort(key=lambda s: json.dumps(s, sort_keys=True))
    probed, nprobe = set(), 0
    with open(out_file, 'w') as o:
        for s in leaves:
            out = []
            for i, e in enumerate(s):
                out.append(e)
                k = json.dumps(s[:i + 1], sort_keys=True)
                if k in probes and k not in probed:
                    probed.add(k)
                    calls, penv = probes[k]
                    calls.sort(key=lambda c: json.dumps(c, sort_keys=True))
                    for c in calls:
                        out.append({'call': c['call'], 'arg': c['arg'], 'env': penv}); nprobe += 1
            o.write(json.dumps(out) + '\n')
    r.pop('stdout', None)
    r.update(schedules_printed=len(uniq), leaves=len(leaves), events=sum(len(s) for s in leaves), probes=nprobe, states_probed=len(probed))
    return r

def skel_tla(skel):
    """An attack skeleton (list of (node, kind[, from, view[, content]])) as a TLA+ sequence of records."""
    rows = []
    for st in skel:
        n, k = st[0], st[1]
        frm = st[2] if len(st) > 2 else 0
        v = st[3] if len(st) > 3 else 0
        c = st[4] if len(st) > 4 else 0
        rows.append('[n |-> %d, k |-> "%s", from |-> %d, v |-> %d, c |-> %d]' % (n, k, frm, v, c))
    return '<<' + ', '.join(rows) + '>>'

def net_cfg(name, byz=(2,), h=2, maxview=1, amev=False, dev=True, weaken=(), invs=('Agreement',), n=4, maxsteps=60, skel=(), props=()):
    b = lambda v: 'TRUE' if v else 'FALSE'
    txt = ('SPECIFICATION Spec\nCONSTANTS\n  N = %d\n  H = %d\n  MaxView = %d\n  Byz = {%s}\n  AmevOn = %s\n  DevEarlyCommitUnverified = %s\n'
           '  Weaken = {%s}\n  Emit = FALSE\n  EmitLen = 0\n  MaxSteps = %d\n  Skel <- %s\nCONSTRAINT Bound\nVIEW View\nINVARIANTS %s\nCHECK_DEADLOCK FALSE\n'
           % (n, h, maxview, ', '.join(str(x) for x in byz), b(amev), b(dev), ', '.join('"%s"' % w for w in weaken), maxsteps, 'SkelDef' if skel else 'NoSkel', ' '.join(invs)))
    if props:
        txt += 'PROPERTY ' + ' '.join(props) + '\n'
    it = dict(name=name, module='MC_Net', cfg=txt)
    if skel:   # the skeleton is a definition of a generated root module (a configuration file cannot hold sequences of records)
        it['root'] = ('MC_NetSkel', '---- MODULE MC_NetSkel ----\nEXTENDS MC_Net\nSkelDef == %s\n====\n' % skel_tla(skel))
    return it

ABS_CFGS = {'quick': [('{0, 1, 2, 3}', '{3}'), ('{0, 1, 2, 3, 4}', '{1}'), ('{0, 1, 2}', '{}'), ('{0}', '{}')],
            'thorough': [('{0, 1, 2, 3}', '{3}'), ('{0, 1, 2, 3, 4}', '{1}'), ('{0, 1, 2, 3, 4, 5}', '{0}'), ('{0, 1, 2, 3, 4, 5, 6}', '{5, 6}'), ('{0, 1, 2}', '{}'), ('{0}', '{}')]}

def agreement_abs(tier, wd):
    """C01 by composition: spec/AgreementAbs.tla (the abstract commit/accept protocol made of the two node-local guarantees
    OneCommit and Certificate) is model-checked by TLC for small constants, its weakened variants must fork (both guarantees
    are needed), and spec/AgreementProof.tla proves Spec => []Agreement for every validator count with the TLA+ proof system."""
    import re as _re
    sd = os.path.join(wd, 'abs'); os.makedirs(sd, exist_ok=True)
    for f in ('AgreementAbs.tla', 'AgreementProof.tla'):
        shutil.copy(os.path.join(vlib.VERIF, 'spec', f), sd)
    out = []
    def tlc(val, byz, weak, views='{0, 1}'):
        cfg = ('SPECIFICATION Spec\nCONSTANTS\n Val = %s\n Byz = %s\n View = %s\n Block = {"a", "b"}\n Weak = "%s"\nINVARIANTS Inv Agreement\nCHECK_DEADLOCK FALSE\n'
               % (val, byz, views, weak))
        if weak != 'none':
            cfg = cfg.replace('INVARIANTS Inv Agreement', 'INVARIANTS Agreement')
        name = 'abs-%s-%s-%s' % (val.count(',') + 1, byz.replace(' ', ''), weak)
        open(os.path.join(sd, name + '.cfg'), 'w').write(cfg)
        t0 = time.time()
        r = subprocess.run(['java', '-Xmx4g', '-XX:+UseParallelGC', '-cp', vlib.JAVA_CP, 'tlc2.TLC', '-workers', '4', '-metadir', os.path.join(sd, 'md-' + name),
                            '-config', name + '.cfg', 'AgreementAbs.tla'], cwd=sd, stdout=subprocess.PIPE, stderr=subprocess.STDOUT, text=True, timeout=900)
        mm = _re.findall(r'(\d[\d,]*) states generated, (\d[\d,]*) distinct states found', r.stdout)
        res = dict(name=name, module='AgreementAbs', constants=dict(Val=val, Byz=byz, View=views, Weak=weak), wall_s=round(time.time() - t0, 1),
                   generated=int(mm[-1][0].replace(',', '')) if mm else 0, distinct=int(mm[-1][1].replace(',', '')) if mm else 0,
                   completed='Model checking completed. No error has been found.' in r.stdout,
                   violated=(_re.search(r'Invariant (\w+) is violated', r.stdout) or [None, None])[1], depth=0, timed_out=False)
        if weak == 'none' and not res['completed'] and not res['violated']:
            raise Infra('TLC failed on AgreementAbs:\n' + r.stdout[-1500:])
        return res
    for val, byz in ABS_CFGS['quick' if tier == 'quick' else 'thorough']:
        out.append(tlc(val, byz, 'none'))
    for weak in ('two_commits', 'M_minus_1'):     # necessity: without either guarantee the abstract protocol forks
        r = tlc('{0, 1, 2, 3}', '{3}', weak)
        r['expected_to_fork'] = True
        out.append(r)
    try:
        t0 = time.time()
        r = vlib.sh(['tlapm', '--threads', '8', 'AgreementProof.tla'], cwd=sd, timeout=600)
        m = _re.search(r'All (\d+) obligations? proved', r.stdout)
        out.append(dict(name='abs-proof', module='AgreementProof (TLAPS)', proved=bool(m), obligations=int(m.group(1)) if m else 0,
                        theorem='Spec => []Agreement for every finite Val, Byz with |Byz| <= F, View, Block', wall_s=round(time.time() - t0, 1),
                        generated=0, distinct=0, completed=bool(m), violated=None, note='' if m else r.stdout[-600:]))
    except (subprocess.TimeoutExpired, FileNotFoundError) as e:
        out.append(dict(name='abs-proof', module='AgreementProof (TLAPS)', proved=False, generated=0, distinct=0, completed=False, violated=None, note='tlapm not run: %s' % e))
    shutil.rmtree(sd, ignore_errors=True)
    return out

def design_net(tier, wd, vh, seed=1):
    """Closed model (C01): random simulation of spec/MC_Net.tla. The faithful model with the KF-1 deviation switched on must
    exhibit the known fork (and it is executed on real nodes); with the deviation switched off no fork may be found."""
    num, cap = (2500, 300) if tier == 'quick' else (400000, 3000)     # quick: about 1.5 M states per configuration
    runs = [
        (net_cfg('net-kf1-regression', byz=(2,), maxview=0, dev=True), dict(num=400000, depth=40, seed=seed, dump=True), 300),
        (net_cfg('net-nodev-byz-primary0', byz=(2,), dev=False, invs=('Agreement', 'Certificates', 'AbsCertificate'), props=('AbsOneCommit',)), dict(num=num, depth=45, seed=seed + 1, dump=True), cap),
        (net_cfg('net-nodev-byz-primary1', byz=(1,), dev=False, invs=('Agreement', 'Certificates', 'AbsCertificate'), props=('AbsOneCommit',)), dict(num=num, depth=45, seed=seed + 2, dump=True), cap),
        (net_cfg('net-nodev-amev', byz=(2,), dev=False, amev=True, invs=('Agreement', 'AbsCertificate'), props=('AbsOneCommit',)), dict(num=num, depth=45, seed=seed + 3, dump=True), cap),
    ]
    if tier != 'quick':
        runs += [(net_cfg('net-nodev-n7', byz=(2, 1), n=7, dev=False, invs=('Agreement', 'AbsCertificate'), props=('AbsOneCommit',)), dict(num=num, depth=60, seed=seed + 4, dump=True), cap),
                 (net_cfg('net-nodev-honest', byz=(), dev=False, invs=('Agreement', 'Certificates', 'AbsCertificate'), props=('AbsOneCommit',)), dict(num=num, depth=45, seed=seed + 5, dump=True), cap)]
    def one(x):
        it, sim, cap = x
        r = run_tlc(it, wd, workers=3, cap=cap, simulate=sim)
        r.pop('stdout', None)
        return r
    with ThreadPoolExecutor(max_workers=5) as ex:
        res = list(ex.map(one, runs))
    for r in res:
        if r.get('violated') and r.get('schedule') and vh:
            viols, bf, tf = replay_schedule(r['schedule'], vh, wd, r['name'])
            r['replayed_on_real_code'] = {'real_formula_failures': sorted({(v['prop'], v['formula'], v['tag']) for v in viols}), 'behaviour': bf, 'trace': tf}
        r.pop('schedule', None)
    return res + agreement_abs(tier, wd)

GEN_DIRS = [os.path.join(vlib.VERIF, 'generated'), os.path.join(vlib.VERIF, '.cache', 'generated')]

def item_key(item, extra=''):
    """Artefacts derived from the specification alone (design-check results, state-cover schedules) are a function of the
    module texts and the configuration: they are stored under this key (committed in generated/, else .cache/generated/)."""
    import hashlib
    h = hashlib.sha256()
    for f in ['DbftNode.tla', item['module'] + '.tla'] + [m + '.tla' for m in MODULE_DEPS.get(item['module'], [])]:
        h.update(open(os.path.join(vlib.VERIF, 'spec', f), 'rb').read())
    h.update(item['cfg'].encode()); h.update(extra.encode())
    if item.get('root'):
        h.update(item['root'][1].encode())
    return h.hexdigest()[:16]

def gen_lookup(fname):
    for d in GEN_DIRS:
        p = os.path.join(d, fname)
        if os.path.exists(p):
            return p
    return None

def gen_store_path(fname):
    d = GEN_DIRS[0] if os.environ.get('VERIF_REGEN') == '1' else GEN_DIRS[1]
    os.makedirs(d, exist_ok=True)
    return os.path.join(d, fname)

def cover_file(item, wd, cap=3000, mod=1):
    """Path of the (gzip) behaviours file of the state cover of `item`, computing it if the specification changed."""
    import gzip
    if item['module'] == 'MC_Node':
        item = dict(item, module='MC_NodeCover')
    fname = 'cover-%s-%s.ndjson.gz' % (item['name'], item_key(item, 'cover%s' % mod))
    p = gen_lookup(fname)
    meta = None
    if p is None:
        tmp = os.path.join(wd, 'cover-%s.ndjson' % item['name'])
        meta = cover_behaviours(item, wd, tmp, cap=cap, mod=mod)
        if not meta['completed']:
            raise Infra('state cover of %s did not complete' % item['name'])
        p = gen_store_path(fname)
        with open(tmp, 'rb') as i, gzip.open(p + '.tmp', 'wb', 6) as o:
            shutil.copyfileobj(i, o)
        os.replace(p + '.tmp', p)
        json.dump(meta, open(p.replace('.ndjson.gz', '.meta.json'), 'w'))
        os.remove(tmp)
    else:
        mp = p.replace('.ndjson.gz', '.meta.json')
        meta = json.load(open(mp)) if os.path.exists(mp) else {}
        meta['from_store'] = os.path.relpath(p, vlib.VERIF)
    return p, meta

def spec_hash():
    return vlib.tree_hash(os.path.join(vlib.VERIF, 'spec'), ('.tla',))

def replay_schedule(evs, vh, wd, tag):
    """Execute a model counterexample on the real node and validate the real trace."""
    rd = os.path.join(wd, 'cex-' + tag); os.makedirs(rd, exist_ok=True)
    bf = os.path.join(rd, 'behaviour.json')
    open(bf, 'w').write(json.dumps(evs) + '\n')
    tf = os.path.join(rd, 'script-%s.ndjson' % tag)
    r = vlib.sh([vh, 'script', '-in', bf, '-runs', '0', '-out', tf], timeout=600)
    if r.returncode != 0:
        raise Infra('script driver failed: ' + r.stdout[-1500:])
    viols, lines, states = vlib.tlc_trace(tf, wd)
    return viols, bf, tf

def design(tier, wd, vh=None, names=None, module='MC_Node'):
    """Run the design checks; model counterexamples are replayed on the real code (if vh is given)."""
    sh = spec_hash()
    if module == 'MC_Sync':
        items = [('fresh', i) for i in SYNC_FAMILIES]
    elif module == 'MC_Dyn':
        items = [('fresh', i) for i in DYN_FAMILIES]
    elif module == 'MC_Live':
        items = [('fresh', i) for i in LIVE_FAMILIES]
    elif module == 'MC_Tx':
        items = [('fresh', i) for i in TX_FAMILIES]
    elif module == 'ShiftInv':
        items = [('fresh', i) for i in SHIFT_FAMILIES]
    else:
        items = [('fresh', i) for i in NODE_FAMILIES['quick']] + [('cached', i) for i in NODE_FAMILIES['cached'] + NODE_FAMILIES['echo'] + NODE_FAMILIES['flip'] + NODE_FAMILIES['ord']]
        if tier != 'quick':
            items += [('cached', i) for i in NODE_FAMILIES['thorough']]
    if names:
        items = [(k, i) for k, i in items if i['name'] in names]
    def one(ki):
        kind, it = ki
        fname = 'design-%s-%s.json' % (it['name'], item_key(it))
        cf = gen_lookup(fname)
        if cf and not (kind == 'fresh' and tier != 'quick'):      # thorough re-runs the small ones
            r = json.load(open(cf)); r['from_cache'] = os.path.relpath(cf, vlib.VERIF)
            return r
        regen = os.environ.get('VERIF_REGEN') == '1'
        r = run_tlc(it, wd, workers=(8 if regen else 4) if kind == 'fresh' else 8,
                    cap=(1800 if regen else 120) if kind == 'fresh' else (900 if regen or tier != 'quick' else 420))
        r.pop('stdout', None); r['from_cache'] = False; r['spec_hash'] = sh
        r['invariants'] = [l for l in it['cfg'].splitlines() if l.startswith('INVARIANTS') or l.startswith('PROPERTY')]
        # a run that hits its time cap is a bounded breadth-first search (reported as such: completed = false)
        json.dump(r, open(gen_store_path(fname), 'w'))
        return r
    with ThreadPoolExecutor(max_workers=4) as ex:
        res = list(ex.map(one, items))
    for r in res:
        if r.get('violated') and r.get('schedule') and vh:
            viols, bf, tf = replay_schedule(r['schedule'], vh, wd, r['name'])
            r['replayed_on_real_code'] = {'real_formula_failures': sorted({(v['prop'], v['formula'], v['tag']) for v in viols}),
                                          'behaviour': bf, 'trace': tf}
        r.pop('schedule', None)
    return res

if __name__ == '__main__':
    wd = vlib.workdir('mc')
    try:
        for r in design(sys.argv[1] if len(sys.argv) > 1 else 'quick', wd, None, sys.argv[2:] or None):
            print(json.dumps(r))
    finally:
        shutil.rmtree(wd, ignore_errors=True)
