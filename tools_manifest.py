#!/usr/bin/env python3
"""Generate /verif/MANIFEST.json from the table below (single source of truth for what is claimed)."""
import json, subprocess
TRACE_NOTE = ("Trusted base: TLC 1.8.0 and the Json/IOUtils community modules; the Go harness (/verif/harness: abstract payload/block "
              "implementation behind the library's interfaces, virtual timer, projection of the real Context + the read-only "
              "VerifSnapshot hook); Byzantine behaviour is drawn from finite menus and never forges honest identities; results are "
              "for the explored schedules (seeded, VERIF_SEED), N in 1..10, views < 8. A formula failure is reported only after "
              "the run was regenerated from its seed and failed again.")
def trace(pid, text, technique, extra_note=''):
    return {"property_id": pid, "quick_cmd": "./check %s --tier quick" % pid, "thorough_cmd": "./check %s --tier thorough" % pid,
            "evidence_file": "evidence/%s.json" % pid, "replay_cmd_template": "./check %s --replay {path}" % pid,
            "engine": "tlc-trace-validation", "level_claimed": {"category": "model_checking", "text": text, "design_ref": "DESIGN.md sections 4, 6"},
            "level_note": TRACE_NOTE + extra_note, "technique": technique}
TV = ("TLA+ trace validation: TLC evaluates the property's formulas (spec/DbftTrace.tla) on every logged step of real dbft runs "
      "(random asynchronous adversary cluster + open single-node environment) and checks each logged call is an outcome of the "
      "implementation-shaped specification spec/DbftNode.tla (conformance); spec->code: behaviours TLC generates from the specification "
      "(random simulation, exhaustive state cover of small MC_Node/MC_Sync configurations, attack schedules found on weakened variants) "
      "are executed on the real node and validated the same way; TLC design checks of the open single-node / closed compositions")
CHECKS = [
 trace("C01", "Agreement formula evaluated by TLC on every block acceptance of recorded real multi-node runs under an asynchronous adversary with <=F Byzantine/amnesia validators; forks are classified against the open known finding KF-1 by a TLA+ signature.", TV),
 trace("C02", "Certificate formulas (>= M current-view commits valid for exactly the handed block, tip extension, block = proposal; pre-commit analogue) evaluated by TLC inside every real ProcessBlock/ProcessPreBlock callback snapshot.", TV),
 trace("C03", "Non-equivocation, commit-lock and view-monotonicity formulas evaluated by TLC over each real node's whole outgoing history (including payloads embedded in its recovery messages).", TV),
 trace("C04", "Response/commit/view-change evidence formulas evaluated by TLC on the real node state captured inside each Broadcast callback and on every returned state.", TV),
 trace("C05", "One-decision, quiescence-until-Reset and clean re-initialisation formulas (tables rebuilt only from payloads cached for the new height) evaluated by TLC on multi-height real runs with ledger jumps and validator-set changes; ResetClean / EarlyUsed action properties checked by TLC on the two-height open model and its state cover executed on the real node.", TV),
 trace("C07", "Anti-MEV phase-order formulas evaluated by TLC on the real callback order (PreCommit, ProcessPreBlock, NewBlockFromContext/Sign, Commit) and on heights below the enabling height.", TV),
 trace("C10", "Timer-armed-for-current-epoch formula evaluated by TLC on the virtual timer after every real API call, and re-arm on every matching timeout.", TV),
 trace("C11", "No-effect formulas for each class of inadmissible / repeated input and no-panic, evaluated by TLC on every real call of an open environment that feeds arbitrary payloads, tags, transactions and callback results.", TV),
 trace("C12", "Answer-after-all-requested-transactions formula evaluated by TLC with request/supply bookkeeping per stored proposal on real runs including in-call view changes.", TV),
 trace("C13", "Silence formulas (no Broadcast, Sign, SetData) evaluated by TLC on every call of real watch-only nodes: non-validators and flagged validators in every rotation position.", TV),
]
def other(pid, cat, text, technique, note, engine):
    return {"property_id": pid, "quick_cmd": "./check %s --tier quick" % pid, "thorough_cmd": "./check %s --tier thorough" % pid,
            "evidence_file": "evidence/%s.json" % pid, "replay_cmd_template": "./check %s --replay {path}" % pid, "engine": engine,
            "level_claimed": {"category": cat, "text": text, "design_ref": "DESIGN.md section 6"}, "level_note": note, "technique": technique}
CHECKS += [
 trace("C08", "No-view-change / decided-in-view-0 / same-block / everybody-at-target formulas evaluated by TLC on fault-free synchronous virtual-time runs of real nodes with random delays, duplicates, a node that receives each round in any order, late Reset (next-height traffic arrives early), anti-MEV and dynamic block time on/off; plus the state cover of spec/MC_Sync.tla (one node, honest synchronous environment, EVERY delivery order / duplication / early next-height arrival; NeverAsks, View0, Decides, TheBlock checked exhaustively by TLC) executed on the real node.", TV.replace("random asynchronous adversary cluster + open single-node environment", "virtual-time synchronous cluster driver")),
 trace("C09", "Progress (every live validator two heights beyond the fault, bounded wait) and deciding-view <= number of silent validators evaluated by TLC on virtual-time runs with silent / watch-only validators, partitions that heal (time- and broadcast-triggered), amnesia restarts within the fault budget, ledger sync for laggards.", TV.replace("random asynchronous adversary cluster + open single-node environment", "virtual-time fault-schedule cluster driver"), " Liveness is checked as bounded liveness: 200 block times per height for silent runs, 400 block times + 8 x partition length after healing."),
 trace("C14", "Clock-shift formula (effects equal, absolute instants shifted by delta) evaluated by TLC on lock-step pairs of real single-node runs whose injected clocks differ by delta, and the round-trip estimate checked to move only by samples measured on the injected clock.", TV.replace("random asynchronous adversary cluster + open single-node environment", "paired open-environment runs at two clock epochs")),
 trace("C15", "Proposal-well-formedness formula (timestamp = max(previous + increment, truncated clock) > previous; transactions = GetVerified result in order; constructor arguments = context = broadcast payload) evaluated by TLC on every own PrepareRequest of real primaries over a grid of clocks behind / equal / ahead / stepping back.", TV.replace("random asynchronous adversary cluster + open single-node environment", "proposal grid driver + adversarial drivers")),
 trace("C16", "Minimum-gap, empty-only-after-maximum, prompt-proposal-on-new-transaction, no-idle-view-change and subscribe-only-if-configured formulas evaluated by TLC on fault-free virtual-time runs with MaxTimePerBlock set and transactions arriving at chosen offsets.", TV.replace("random asynchronous adversary cluster + open single-node environment", "virtual-time synchronous cluster driver with dynamic block time")),
 other("C06", "exploration", "TLC checks the quorum/rotation theorems on the TLA+ definitions (spec/Quorum.tla) and checks one row per (N, height, view) produced by the real Context.F/M/GetPrimaryIndex against them; thorough = every N in 1..65535 (exhaustive over the validator-count domain).", "TLC as enumerator/oracle for a pure function: rows from the real code checked against spec/Quorum.tla; PrimaryOK evaluated on real traces", "Trusted: TLC, base-256 digit reduction for heights above 2^31 (TLC integers are 32 bit). Views sampled {0,1,2,3,7,255}, heights at 17 boundary values.", "tlc-rows"),
 other("C17", "exploration", "The real simulation binary is run (own network namespace per configuration) and TLC checks its decision log against spec/SimApp.tla: gapless heights per node, agreement per height, at least (duration-4s)/5s heights.", "TLC validation of the real binary's log against spec/SimApp.tla", "Wall-clock run of 17 s (quick) / 27-62 s (thorough) per configuration; lower bound only.", "tlc-rows"),
 other("C18", "exploration", "Seeded operation sequences on the real timer.Timer, stamped with the monotonic clock, validated by TLC against spec/BundledTimer.tla (never early: exact; delivered: within 500 ms; reports latest epoch; delivered once).", "TLC trace validation of timestamped real timer operations against spec/BundledTimer.tla", "Single-goroutine use; the upper bound uses a 500 ms tolerance so a loaded machine raises no alarm.", "tlc-rows"),
 other("C19", "exploration", "Value-level clauses only: single-field mutation / codec / corrupted-input / recovery-rebuild / signature / Merkle rows computed with the real reference code and checked by TLC against the expectation table spec/PayloadAlgebra.tla. Three standing deviations are known findings (KF-3, KF-4, KF-5).", "TLC check of enumerated value-level rows against spec/PayloadAlgebra.tla", "A state-machine model says nothing about decoder robustness on arbitrary bytes or cryptographic soundness; those are only sampled (structured corruptions).", "tlc-rows"),
 other("C20", "model_checking", "TLC explores the shipped TLA+ models of the working tree (SPECIFICATION Safety, RM = 0..3, MaxView = 1, shipped constraint) for the fault sets their ASSUME allows, checking the shipped invariants and independent restatements of them (fork, fault count, types). quick: base + anti-MEV models with good/faulty/dead node, three-staged model all good; thorough: all five models and fault sets, capped runs reported as bounded.", "TLC model checking of the shipped specifications themselves", "The artefact under test is a specification: traces_validated_against_impl is 0 by nature. F-8 (three-staged model with a faulty node) is a known finding.", "tlc-shipped-models"),
]
CHECKS.sort(key=lambda c: c["property_id"])
NOT_YET = []
head = subprocess.check_output("git -C /repo log --format=%h --grep='^verif:' -n 5", shell=True, text=True).split()
m = {"version": 1,
     "setup_cmd": "true",
     "hooks": {"guard": "verif", "enable": "go build -tags verif (one add-only file /repo/verif_export.go: read-only VerifSnapshot accessor)",
               "baseline_off_cmd": "cd /repo && GOFLAGS=-mod=mod GOPROXY=off go test -vet=off -count=1 ./...",
               "source_commits": head, "add_only": True},
     "engines": [{"name": "tlc-rows", "path": "check", "serves_properties": ["C06", "C17", "C18", "C19"], "kind_free_text": "rows / logs produced by the real code, checked by TLC against small specifications (Quorum, SimApp, BundledTimer, PayloadAlgebra)"},
                 {"name": "tlc-shipped-models", "path": "check", "serves_properties": ["C20"], "kind_free_text": "TLC on /repo/formal-models/*.tla"},
                 {"name": "tlc-trace-validation", "path": "check", "serves_properties": [c["property_id"] for c in CHECKS if c["engine"] == "tlc-trace-validation"],
                  "kind_free_text": "Go harness records real runs as ndjson; TLC (spec/DbftTrace.tla + spec/DbftNode.tla) evaluates property formulas and conformance on them"}],
     "checks": CHECKS,
     "notes": "see DESIGN.md; known findings in known_findings.json; seeded mutants in seeded/",
     "not_applicable": [{"property_id": p, "reason": "check under construction in this round (not yet claimed)"} for p in NOT_YET]}
json.dump(m, open('/verif/MANIFEST.json', 'w'), indent=1)
print(len(CHECKS), 'checks')
