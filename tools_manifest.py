#!/usr/bin/env python3
"""Generate /verif/MANIFEST.json from the table below (single source of truth for what is claimed)."""
import json, subprocess
TRACE_NOTE = ("Trusted base: TLC 1.8.0 and the Json/IOUtils community modules; the Go harness (/verif/harness: abstract payload/block "
              "implementation behind the library's interfaces, virtual timer, projection of the real Context + the read-only "
              "VerifSnapshot hook); Byzantine behaviour is drawn from finite menus and never forges honest identities; results are "
              "for the explored schedules (seeded, VERIF_SEED), N in 1..10, views < 8. A formula failure is reported only after "
              "the run was regenerated from its seed and failed again.")
def trace(pid, text, technique, extra_note=''):
    return {"property_id": pid, "quick_cmd": "./check %s --tier quick" % pid, "thorough_cmd": "./check %s --tier thorough" % pid,
            "evidence_file": "evidence/%s.json" % pid, "replay_cmd_template": "./check %s --replay {path}" % pid,
            "engine": "tlc-trace-validation", "level_claimed": {"category": "model_checking", "text": text, "design_ref": "DESIGN.md sections 4, 6"},
            "level_note": TRACE_NOTE + extra_note, "technique": technique}
TV = ("TLA+ trace validation: TLC evaluates the property's formulas (spec/DbftTrace.tla) on every logged step of real dbft runs "
      "(random asynchronous adversary cluster + open single-node environment) and checks each logged call is an outcome of the "
      "implementation-shaped specification spec/DbftNode.tla (conformance)")
CHECKS = [
 trace("C01", "Agreement formula evaluated by TLC on every block acceptance of recorded real multi-node runs under an asynchronous adversary with <=F Byzantine/amnesia validators; forks are classified against the open known finding KF-1 by a TLA+ signature.", TV),
 trace("C02", "Certificate formulas (>= M current-view commits valid for exactly the handed block, tip extension, block = proposal; pre-commit analogue) evaluated by TLC inside every real ProcessBlock/ProcessPreBlock callback snapshot.", TV),
 trace("C03", "Non-equivocation, commit-lock and view-monotonicity formulas evaluated by TLC over each real node's whole outgoing history (including payloads embedded in its recovery messages).", TV),
 trace("C04", "Response/commit/view-change evidence formulas evaluated by TLC on the real node state captured inside each Broadcast callback and on every returned state.", TV),
 trace("C05", "One-decision, quiescence-until-Reset and clean re-initialisation formulas (tables rebuilt only from payloads cached for the new height) evaluated by TLC on multi-height real runs with ledger jumps and validator-set changes.", TV),
 trace("C07", "Anti-MEV phase-order formulas evaluated by TLC on the real callback order (PreCommit, ProcessPreBlock, NewBlockFromContext/Sign, Commit) and on heights below the enabling height.", TV),
 trace("C10", "Timer-armed-for-current-epoch formula evaluated by TLC on the virtual timer after every real API call, and re-arm on every matching timeout.", TV),
 trace("C11", "No-effect formulas for each class of inadmissible / repeated input and no-panic, evaluated by TLC on every real call of an open environment that feeds arbitrary payloads, tags, transactions and callback results.", TV),
 trace("C12", "Answer-after-all-requested-transactions formula evaluated by TLC with request/supply bookkeeping per stored proposal on real runs including in-call view changes.", TV),
 trace("C13", "Silence formulas (no Broadcast, Sign, SetData) evaluated by TLC on every call of real watch-only nodes: non-validators and flagged validators in every rotation position.", TV),
]
NOT_YET = ["C06", "C08", "C09", "C14", "C15", "C16", "C17", "C18", "C19", "C20"]
head = subprocess.check_output("git -C /repo log --format=%h --grep='^verif:' -n 5", shell=True, text=True).split()
m = {"version": 1,
     "setup_cmd": "true",
     "hooks": {"guard": "verif", "enable": "go build -tags verif (one add-only file /repo/verif_export.go: read-only VerifSnapshot accessor)",
               "baseline_off_cmd": "cd /repo && GOFLAGS=-mod=mod GOPROXY=off go test -vet=off -count=1 ./...",
               "source_commits": head, "add_only": True},
     "engines": [{"name": "tlc-trace-validation", "path": "check", "serves_properties": [c["property_id"] for c in CHECKS],
                  "kind_free_text": "Go harness records real runs as ndjson; TLC (spec/DbftTrace.tla + spec/DbftNode.tla) evaluates property formulas and conformance on them"}],
     "checks": CHECKS,
     "notes": "see DESIGN.md; known findings in known_findings.json; seeded mutants in seeded/",
     "not_applicable": [{"property_id": p, "reason": "check under construction in this round (not yet claimed)"} for p in NOT_YET]}
json.dump(m, open('/verif/MANIFEST.json', 'w'), indent=1)
print(len(CHECKS), 'checks')
