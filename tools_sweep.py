#!/usr/bin/env python3
"""Every recorded-run plan of the quick tier once, ALL property formulas reported (not only those of one property).
Used for false-alarm testing: a behaviour-changing, property-preserving change (benign/<name>/patch.diff) must leave every
formula quiet.  usage: VERIF_REPO=<scratch copy> tools_sweep.py [--tier quick] [--seed N]
Prints one line per (property, formula, tag) with the number of failures and an example; exit 0 iff nothing but open known
findings failed."""
import importlib.machinery, importlib.util, json, os, shutil, sys, collections
HERE = os.path.dirname(os.path.abspath(__file__))
sys.path.insert(0, HERE)
import vlib
ldr = importlib.machinery.SourceFileLoader('checkmod', os.path.join(HERE, 'check'))
spec = importlib.util.spec_from_loader('checkmod', ldr); chk = importlib.util.module_from_spec(spec); ldr.exec_module(chk)

def main():
    args = sys.argv[1:]
    tier, seed = 'quick', int(os.environ.get('VERIF_SEED', '1'))
    if '--tier' in args:
        tier = args[args.index('--tier') + 1]
    if '--seed' in args:
        seed = int(args[args.index('--seed') + 1])
    kf = {e['tag'] for e in vlib.known_findings()['open']}
    wd = vlib.workdir('sweep')
    rc = 0
    try:
        vh = vlib.build_harness(wd)
        plans = [('GENERAL', chk.GENERAL[tier])]
        for pid in ('C08', 'C09', 'C14', 'C15', 'C16'):
            plans.append((pid, chk.SPECIFIC[pid][tier]))
        plans.append(('C12x', [x for x in chk.SPECIFIC['C12'][tier] if x not in chk.GENERAL[tier]]))
        for name, plan in plans:
            pw = os.path.join(wd, name); os.makedirs(pw)
            res = chk.shared_runs(plan, tier, seed, pw, vh)
            agg = collections.OrderedDict()
            for v in res['viols']:
                agg.setdefault((v['prop'], v['formula'], v['tag']), []).append(v)
            new = {k: l for k, l in agg.items() if not (k[2] and k[2] in kf)}
            print('PLAN %s: %d runs, %d lines, conformance %s, formula failures: %d (%d kinds outside the known findings)' % (
                name, res['nruns'], res['lines'], {k: res['conf'][k] for k in ('checked', 'diverged', 'skipped')}, len(res['viols']), len(new)), flush=True)
            for k, l in agg.items():
                print('  %s %s %s tag=%s x%d e.g. file=%s run=%d line=%d call=%s' % (
                    'known' if k not in new else 'ALARM', k[0], k[1], k[2] or '-', len(l), os.path.basename(l[0]['file']), l[0]['run'], l[0]['line'], l[0]['call']), flush=True)
            if new:
                rc = 1
            shutil.rmtree(pw, ignore_errors=True)
    finally:
        shutil.rmtree(wd, ignore_errors=True)
    return rc

if __name__ == '__main__':
    sys.exit(main())
