#!/usr/bin/env python3
"""Apply each seeded mutant to /repo, run the check(s), undo. usage: tools_run_mutants.py [--tier quick] [--all-props] name..."""
import json, os, subprocess, sys, time
args = sys.argv[1:]
tier = 'quick'
if '--tier' in args:
    i = args.index('--tier'); tier = args[i + 1]; del args[i:i + 2]
props_override = None
if '--props' in args:
    i = args.index('--props'); props_override = args[i + 1].split(','); del args[i:i + 2]
repo = '/repo'
if '--repo' in args:   # a scratch copy / worktree of /repo (e.g. $VP_RUN_REPO): /repo itself is not touched
    i = args.index('--repo'); repo = os.path.abspath(args[i + 1]); del args[i:i + 2]
HERE = os.path.dirname(os.path.abspath(__file__))
sub = 'seeded'
if '--dir' in args:    # 'benign': behaviour-changing, property-preserving changes (every check must stay quiet)
    i = args.index('--dir'); sub = args[i + 1]; del args[i:i + 2]
names = args or sorted(os.listdir(os.path.join(HERE, sub)))
def sh(c, **kw):
    return subprocess.run(c, shell=True, stdout=subprocess.PIPE, stderr=subprocess.STDOUT, text=True, **kw)
def clean():
    return sh('cd %s && git status --porcelain' % repo).stdout.strip() == ''
assert clean(), 'repo not clean'
ALL = [c['property_id'] for c in json.load(open(os.path.join(HERE, 'MANIFEST.json')))['checks']]
for n in names:
    d = os.path.join(HERE, sub, n)
    meta = json.load(open(os.path.join(d, 'meta.json')))
    props = props_override or ([meta['breaks_property']] if meta.get('breaks_property') else ALL)
    r = sh('cd %s && git apply %s/patch.diff' % (repo, d))
    if r.returncode != 0:
        print(n, 'PATCH FAILED', r.stdout[-300:]); continue
    try:
        for p in props:
            t0 = time.time()
            r = sh('cd %s && VERIF_REPO=%s ./check %s --tier %s' % (HERE, repo, p, tier), timeout=7200)
            lines = [l for l in r.stdout.splitlines() if l.startswith('VIOLATION') or l.startswith('  formula') or 'INFRA' in l]
            print('%s check=%s rc=%d %.0fs %s' % (n, p, r.returncode, time.time() - t0, ' | '.join(lines[:4])), flush=True)
            if r.returncode == 2:
                print(r.stdout[-1500:])
    finally:
        sh('cd %s && git checkout -- .%s' % (repo, ' && git clean -fdq' if repo != '/repo' else ''))
assert clean()
