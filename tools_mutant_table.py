#!/usr/bin/env python3
"""Collect the outcomes of tools_run_mutants.py runs (log files given as arguments, later lines win) into seeded/*/meta.json
(`detected_by`) and into the MUTANT-TABLE block of DESIGN.md."""
import json, os, re, sys, glob
HERE = os.path.dirname(os.path.abspath(__file__))
res = {}
for f in sys.argv[1:]:
    for ln in open(f, errors='replace'):
        m = re.match(r'^(C\d\d-m\d) check=(C\d\d) rc=(\d+) (\d+)s ?(.*)', ln)
        if m:
            name, chk, rc, secs, rest = m.group(1), m.group(2), int(m.group(3)), int(m.group(4)), m.group(5)
            fm = sorted(set(re.findall(r'formula (\w+) failed', rest)))
            res.setdefault(name, {})[chk] = {'rc': rc, 'seconds': secs, 'formulas': fm, 'tier': 'quick'}
rows = []
for d in sorted(glob.glob(os.path.join(HERE, 'seeded', '*'))):
    name = os.path.basename(d)
    mp = os.path.join(d, 'meta.json')
    meta = json.load(open(mp))
    det = meta.get('detected_by') or {}
    det.update(res.get(name, {}))
    meta['detected_by'] = det
    json.dump(meta, open(mp, 'w'), indent=1)
    caught = [c for c, r in sorted(det.items()) if r['rc'] == 1]
    missed = [c for c, r in sorted(det.items()) if r['rc'] == 0]
    if meta.get('obsolete_at_head'):
        missed = ['(obsolete at HEAD, see meta.json)']
    what = meta['summary'].replace('\n', ' ').replace('|', '/')[:150]
    rows.append('| %s | %s | %s | %s | %s |' % (name, meta['breaks_property'],
                ', '.join('%s (%s)' % (c, '/'.join(det[c]['formulas'][:3]) or 'rows') for c in caught) or '-',
                ', '.join(missed) or '-', what))
tbl = ('<!-- MUTANT-TABLE-BEGIN -->\n| change | breaks | caught by (quick tier; failing formulas) | run without alarm | what it does |\n|---|---|---|---|---|\n'
       + '\n'.join(rows) + '\n<!-- MUTANT-TABLE-END -->')
p = os.path.join(HERE, 'DESIGN.md')
s = open(p).read()
if '<!-- MUTANT-TABLE-BEGIN -->' in s:
    s = re.sub(r'<!-- MUTANT-TABLE-BEGIN -->.*?<!-- MUTANT-TABLE-END -->', lambda m: tbl, s, flags=re.S)
else:
    s = s.replace('### 0.6 Spec -> code', tbl + '\n\n### 0.6 Spec -> code', 1)
open(p, 'w').write(s)
n = len(rows); c = sum(1 for r in rows if '| - | ' not in r[r.index('|', 3):][:200] and True)
print('%d seeded changes; caught by some check: %d' % (n, sum(1 for d in glob.glob(os.path.join(HERE, 'seeded', '*')) if any(r['rc'] == 1 for r in (json.load(open(os.path.join(d, 'meta.json'))).get('detected_by') or {}).values()))))
