#!/usr/bin/env python3
"""Regenerate the artefacts that depend on the specification only (design-check results of spec/MC_Node.tla configurations and
the state-cover schedules) into /verif/generated/, keyed by the text of the modules + configuration. Run after every change of
spec/DbftNode.tla or spec/MC_Node.tla and commit the result; checks fall back to computing them (into .cache/) when a key is
missing. usage: tools_regen.py [quick|thorough]"""
import os, sys, json, shutil, glob
os.environ['VERIF_REGEN'] = '1'
sys.path.insert(0, os.path.dirname(os.path.abspath(__file__)))
import vlib, mc
tier = sys.argv[1] if len(sys.argv) > 1 else 'quick'
import importlib.machinery, importlib.util
ld = importlib.machinery.SourceFileLoader('chk', os.path.join(vlib.VERIF, 'check'))
chk = importlib.util.module_from_spec(importlib.util.spec_from_loader('chk', ld)); ld.exec_module(chk)
wd = vlib.workdir('regen')
keep = set()
try:
    items = {i['name']: i for k in mc.NODE_FAMILIES for i in mc.NODE_FAMILIES[k]}
    items.update({i['name']: i for i in mc.SYNC_FAMILIES + mc.DYN_FAMILIES + mc.LIVE_FAMILIES + mc.TX_FAMILIES + mc.SHIFT_FAMILIES})
    for r in mc.design(tier, wd, None) + mc.design(tier, wd, None, module='MC_Sync') + mc.design(tier, wd, None, module='MC_Dyn') + mc.design(tier, wd, None, module='MC_Live') + mc.design(tier, wd, None, module='MC_Tx') + mc.design(tier, wd, None, module='ShiftInv'):
        print('design', r['name'], r['distinct'], r['wall_s'], 'completed' if r['completed'] else ('violated ' + str(r['violated'])), r.get('from_cache'), flush=True)
    from concurrent.futures import ThreadPoolExecutor
    def one_cover(nm):
        nm, _, cap = nm.partition(':')
        cw = os.path.join(wd, 'cv-' + nm + '-' + (cap or '1')); os.makedirs(cw, exist_ok=True)
        p, meta = mc.cover_file(items[nm], cw, cap=7200, mod=int(cap) if cap else 1)
        print('cover', nm, cap, meta.get('leaves'), meta.get('events'), os.path.getsize(p), meta.get('wall_s'), flush=True)
    with ThreadPoolExecutor(max_workers=int(os.environ.get('VERIF_REGEN_PAR', '7'))) as ex:    # one single-worker TLC each (the prefix tree needs a deterministic search order)
        list(ex.map(one_cover, sorted(set(chk.COVER['quick'] + chk.COVER[tier] + [n for p in ('C08', 'C16', 'C09', 'C12', 'C14') for d, r, x in chk.SPECIFIC[p]['quick'] + chk.SPECIFIC[p][tier] if d in ('cover', 'coverpair') for n in x]))))
    import misc
    print('cover timerimpl', misc.timer_cover(wd, 1), flush=True)
finally:
    shutil.rmtree(wd, ignore_errors=True)
# drop artefacts of older specification versions
names = {i['name']: i for k in mc.NODE_FAMILIES for i in mc.NODE_FAMILIES[k]}
names.update({i['name']: i for i in mc.SYNC_FAMILIES + mc.DYN_FAMILIES + mc.LIVE_FAMILIES + mc.TX_FAMILIES + mc.SHIFT_FAMILIES})
caps = {}
for t in chk.COVER:
    for nm in chk.COVER[t] + [n for p in ('C08', 'C16', 'C09', 'C12', 'C14') for d, r, x in chk.SPECIFIC[p][t] if d in ('cover', 'coverpair') for n in x]:
        nm, _, cap = nm.partition(':')
        caps.setdefault(nm, []).append(int(cap) if cap else 1)
for f in glob.glob(os.path.join(vlib.VERIF, 'generated', '*')):
    b = os.path.basename(f)
    ok = b == 'attacks.json'
    for nm, it in names.items():
        cit = dict(it, module='MC_NodeCover') if it['module'] == 'MC_Node' else it     # the key cover_file uses
        if b.startswith('design-%s-%s' % (nm, mc.item_key(it))) or any(b.startswith('cover-%s-%s' % (nm, mc.item_key(cit, 'cover%s' % c))) for c in caps.get(nm, [])) or b.startswith('cover-timerimpl-'):
            ok = True
    if not ok:
        os.remove(f); print('removed stale', b)
