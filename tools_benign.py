#!/usr/bin/env python3
"""False-alarm testing: apply each benign/<name>/patch.diff (a behaviour-changing change that keeps every property) to a scratch
copy of /repo, confirm that it builds and that the unedited test suite passes, run tools_sweep.py (every quick plan, every
formula) and the row-based checks, undo.  usage: tools_benign.py --repo <scratch worktree> [names...]"""
import json, os, subprocess, sys, time
HERE = os.path.dirname(os.path.abspath(__file__))
args = sys.argv[1:]
i = args.index('--repo'); repo = os.path.abspath(args[i + 1]); del args[i:i + 2]
assert repo != '/repo'
names = args or sorted(os.listdir(os.path.join(HERE, 'benign')))
def sh(c, **kw):
    return subprocess.run(c, shell=True, stdout=subprocess.PIPE, stderr=subprocess.STDOUT, text=True, **kw)
for n in names:
    d = os.path.join(HERE, 'benign', n)
    r = sh('cd %s && git checkout -- . && git clean -fdq && git apply %s/patch.diff' % (repo, d))
    if r.returncode:
        print(n, 'PATCH FAILED', r.stdout[-300:]); continue
    try:
        r = sh('cd %s && GOFLAGS=-mod=mod GOPROXY=off go build ./... && GOFLAGS=-mod=mod GOPROXY=off go test -vet=off -count=1 ./...' % repo)
        print('%s suite=%s' % (n, 'pass' if r.returncode == 0 else 'FAIL'), flush=True)
        t0 = time.time()
        r = sh('cd %s && VERIF_REPO=%s python3 tools_sweep.py' % (HERE, repo), timeout=4 * 3600)
        print('%s sweep rc=%d %.0fs' % (n, r.returncode, time.time() - t0)); print(r.stdout[-6000:], flush=True)
        for p in ('C06', 'C17', 'C18', 'C19'):
            t0 = time.time()
            r = sh('cd %s && VERIF_REPO=%s ./check %s' % (HERE, repo, p), timeout=7200)
            print('%s check=%s rc=%d %.0fs %s' % (n, p, r.returncode, time.time() - t0, ' | '.join(l for l in r.stdout.splitlines() if l.startswith('VIOLATION'))[:300]), flush=True)
    finally:
        sh('cd %s && git checkout -- . && git clean -fdq' % repo)
