#!/usr/bin/env python3
"""Is generated/ complete for a tier? (a fresh copy of /verif has no .cache: every artefact a check looks up must be committed,
otherwise the check computes it itself - minutes to tens of minutes). usage: tools_gencheck.py [quick|thorough]; exit 1 if incomplete"""
import os, sys, importlib.machinery, importlib.util
HERE = os.path.dirname(os.path.abspath(__file__))
sys.path.insert(0, HERE)
import vlib, mc
mc.GEN_DIRS = mc.GEN_DIRS[:1]      # committed artefacts only
ld = importlib.machinery.SourceFileLoader('chk', os.path.join(HERE, 'check'))
chk = importlib.util.module_from_spec(importlib.util.spec_from_loader('chk', ld)); ld.exec_module(chk)
items = {i['name']: i for k in mc.NODE_FAMILIES for i in mc.NODE_FAMILIES[k]}
items.update({i['name']: i for i in mc.SYNC_FAMILIES + mc.DYN_FAMILIES + mc.LIVE_FAMILIES + mc.TX_FAMILIES + mc.SHIFT_FAMILIES})
bad = 0
for tier in sys.argv[1:] or ['quick']:
    names = sorted(set(chk.COVER[tier] + [n for p in ('C08', 'C16', 'C09', 'C12', 'C14') for d, r, x in chk.SPECIFIC[p][tier] if d in ('cover', 'coverpair') for n in x]))
    for nm in names:
        n, _, cap = nm.partition(':')
        it = items[n]
        if it['module'] == 'MC_Node':
            it = dict(it, module='MC_NodeCover')
        if not mc.gen_lookup('cover-%s-%s.ndjson.gz' % (n, mc.item_key(it, 'cover%s' % (int(cap) if cap else 1)))):
            print(tier, 'MISSING cover', nm); bad += 1
for k in ('quick', 'cached', 'echo', 'flip', 'ord'):
    for it in mc.NODE_FAMILIES[k]:
        if not mc.gen_lookup('design-%s-%s.json' % (it['name'], mc.item_key(it))):
            print('MISSING design', it['name']); bad += 1
for it in mc.SYNC_FAMILIES + mc.DYN_FAMILIES + mc.LIVE_FAMILIES + mc.TX_FAMILIES + mc.SHIFT_FAMILIES:
    if not mc.gen_lookup('design-%s-%s.json' % (it['name'], mc.item_key(it))):
        print('MISSING design', it['name']); bad += 1
import misc, hashlib
key = hashlib.sha256(open(os.path.join(HERE, 'spec', 'TimerImpl.tla'), 'rb').read() + (misc.TIMER_CFG + '1').encode()).hexdigest()[:16]
if not os.path.exists(os.path.join(HERE, 'generated', 'cover-timerimpl-%s.ndjson.gz' % key)):
    print('MISSING cover timerimpl'); bad += 1
print('generated/ complete' if not bad else '%d artefacts missing' % bad)
sys.exit(1 if bad else 0)
