------------------------------ MODULE ShiftInv ------------------------------
(***************************************************************************)
(* C14 at design level: the node specification depends on time only        *)
(* through the injected clock.                                             *)
(*                                                                         *)
(* Sh(x, D) moves every absolute instant held in a node state by D: the    *)
(* timer's due instant, lastBlockTime, prepareSentTime, the timestamps of  *)
(* the proposal under construction, of the previous block, of stored and   *)
(* cached payloads.  Durations (timer.d, timer.ext, rttAvg, tpb) and       *)
(* everything else stay.  ShEnv / ShArg / ShOut do the same for what the   *)
(* application answers, for call arguments and for effect callbacks.       *)
(*                                                                         *)
(*   Invariant(x, call, arg, env, D) ==                                    *)
(*      Api(Sh(x), call, ShArg(arg), ShEnv(env))                           *)
(*          = { Sh(o) : o \in Api(x, call, arg, env) }                     *)
(*                                                                         *)
(* for D a multiple of the timestamp increment: the same call against a    *)
(* world whose clock (and every timestamp) reads D more has the same       *)
(* outcomes, with the same timer durations, shifted by D.  The closed      *)
(* timed compositions (MC_DynShift, MC_LiveShift) check it in every        *)
(* reachable state for every call their next-state relation can make.      *)
(* Together with the conformance check (every logged real call is an       *)
(* outcome of Api) this is the specification-side half of C14; the         *)
(* code-side half is the clock-shift pair driver.                          *)
(***************************************************************************)
EXTENDS Integers, Sequences, FiniteSets, TLC

Node == INSTANCE DbftNode WITH DevEarlyCommitUnverified <- TRUE, Weaken <- {}

ShTs(t, D) == IF t = 0 THEN 0 ELSE t + D          \* 0 = "not set" (fresh context)
ShI(t, D) == IF t < 0 THEN t ELSE t + D           \* -1 = "never"
ShPh(ph, D) == IF "ts" \in DOMAIN ph THEN [ph EXCEPT !.ts = ShTs(@, D)] ELSE ph
ShBlock(b, D) == IF "ts" \in DOMAIN b THEN [b EXCEPT !.ts = ShTs(@, D)] ELSE b
RECURSIVE ShP(_, _)
ShP(m, D) ==
  CASE m.t = "PrepareRequest" -> [m EXCEPT !.ts = ShTs(@, D)]
    [] m.t = "PrepareResponse" -> [m EXCEPT !.ph = ShPh(@, D)]
    [] m.t \in {"ChangeView", "RecoveryRequest"} -> [m EXCEPT !.ts = ShTs(@, D)]
    [] m.t \in {"Commit", "PreCommit"} -> [m EXCEPT !.b = ShBlock(@, D)]
    [] m.t = "RecoveryMessage" -> [m EXCEPT !.prep = [i \in 1..Len(@) |-> ShP(@[i], D)], !.cvs = [i \in 1..Len(@) |-> ShP(@[i], D)],
                                            !.pcs = [i \in 1..Len(@) |-> ShP(@[i], D)], !.cms = [i \in 1..Len(@) |-> ShP(@[i], D)]]
    [] OTHER -> m
ShSlot(s, D) ==
  CASE s.k \in {"req", "resp"} -> [s EXCEPT !.ph = ShPh(@, D)]
    [] s.k \in {"cm", "pc"} -> [s EXCEPT !.b = ShBlock(@, D)]
    [] s.k = "cv" -> [s EXCEPT !.ts = ShTs(@, D)]
    [] OTHER -> s
ShTab(t, D) == [i \in 1..Len(t) |-> ShSlot(t[i], D)]
ShOut(c, D) ==
  CASE c.k = "Broadcast" -> [c EXCEPT !.m = ShP(@, D)]
    [] c.k \in {"ProcessBlock", "ProcessPreBlock"} -> [c EXCEPT !.block = ShBlock(@, D)]
    [] OTHER -> c
ShEnv(e, D) == [e EXCEPT !.now = @ + D, !.ledger = [@ EXCEPT !.tipTs = ShTs(@, D)], !.rejects = {ShP(m, D) : m \in @}]
ShArg(call, a, D) ==
  CASE call \in {"Start", "Reset"} -> [a EXCEPT !.ts = ShTs(@, D)]
    [] call = "OnReceive" -> ShP(a, D)
    [] OTHER -> a
Sh(x, D) ==
  IF ~x.started THEN x
  ELSE [x EXCEPT !.ts = ShTs(@, D), !.lbTs = ShTs(@, D), !.lbTime = ShI(@, D), !.sentAt = ShI(@, D),
                 !.timer = IF @.k = "t" THEN [@ EXCEPT !.due = @ + D] ELSE @,
                 !.prep = ShTab(@, D), !.cm = ShTab(@, D), !.pc = ShTab(@, D), !.cv = ShTab(@, D), !.lastcv = ShTab(@, D),
                 !.cache = {[c EXCEPT !.p = ShP(@, D)] : c \in @},
                 !.out = [i \in 1..Len(@) |-> ShOut(@[i], D)]]
Norm(o) == [o EXCEPT !.env = [now |-> 0], !.fp = 0, !.fb = 0]

ShiftInvariantAt(x, call, arg, env, D) ==
  {Norm(o) : o \in Node!Api(Sh(x, D), call, ShArg(call, arg, D), ShEnv(env, D))} = {Norm(Sh(o, D)) : o \in Node!Api(x, call, arg, env)}
=============================================================================
