------------------------------- MODULE Quorum -------------------------------
(***************************************************************************)
(* C06: quorum arithmetic and primary rotation.                            *)
(*  - design part: the definitions used by DbftNode.tla satisfy the        *)
(*    theorems (checked by TLC over a finite domain, ASSUME ThmArith etc.) *)
(*  - binding part: rows produced by the REAL Context.N/F/M and            *)
(*    GetPrimaryIndex (harness driver "quorum") are checked against the    *)
(*    definitions; heights above 2^31 are given as base-256 digits and     *)
(*    reduced digit-wise (TLC integers are 32 bit).                        *)
(***************************************************************************)
EXTENDS Integers, Sequences, FiniteSets, TLC, Json, IOUtils

F(n) == (n - 1) \div 3
M(n) == n - F(n)
Primary(h, v, n) == (h - v) % n          \* h, v, n small enough for 32-bit arithmetic
Range(s) == {s[i] : i \in 1..Len(s)}

\* (h mod n) for h given as base-256 digits, most significant first
RECURSIVE HMod(_, _, _)
HMod(d, n, acc) == IF d = <<>> THEN acc ELSE HMod(Tail(d), n, (acc * 256 + Head(d)) % n)
PrimaryD(d, v, n) == (HMod(d, n, 0) + n - (v % n)) % n
AddSmall(d, k, n) == (HMod(d, n, 0) + k) % n   \* ((h + k) mod n), wrap-around of uint32 not modelled: callers keep h + k < 2^32

\* ---- design theorems over a finite domain ----
MaxN == IF "VERIF_MAXN" \in DOMAIN IOEnv THEN atoi(IOEnv.VERIF_MAXN) ELSE 2000
ThmArith == \A n \in 1..MaxN :
   /\ F(n) >= 0 /\ 3 * F(n) + 1 <= n /\ 3 * (F(n) + 1) + 1 > n      \* F = floor((n-1)/3)
   /\ M(n) = n - F(n) /\ M(n) >= 1 /\ M(n) <= n
   /\ 2 * M(n) - n > F(n)                                          \* two quorums share more than F validators
   /\ n - F(n) >= M(n)                                             \* a quorum never needs a faulty validator
ThmRotation == \A n \in 1..64 : \A h \in {0, 1, 2, n, n + 1, 100000} :
   /\ \A v \in 0..255 : Primary(h, v, n) \in 0..(n - 1)
   /\ {Primary(h, v, n) : v \in 0..(n - 1)} = 0..(n - 1)            \* every validator primary exactly once over n views
   /\ {Primary(h + k, 3, n) : k \in 0..(n - 1)} = 0..(n - 1)        \* ... and over n consecutive heights
ASSUME ThmArith
ASSUME ThmRotation

\* ---- rows from the real code ----
Rows == ndJsonDeserialize(IOEnv.VERIF_TRACE)
RowOK(r) ==
  /\ r.f = F(r.n) /\ r.m = M(r.n)
  /\ CASE r.k = "pt"   -> r.p = PrimaryD(r.hd, r.v, r.n)
       [] r.k = "rotv" -> /\ Len(r.ps) = r.n /\ Range(r.ps) = 0..(r.n - 1)
                          /\ \A v \in 0..(r.n - 1) : r.ps[v + 1] = PrimaryD(r.hd, v, r.n)
       [] r.k = "roth" -> /\ Len(r.ps) = r.n /\ Range(r.ps) = 0..(r.n - 1)
                          /\ \A k \in 0..(r.n - 1) : r.ps[k + 1] = (AddSmall(r.hd, k, r.n) + r.n - (r.v % r.n)) % r.n
Bad == {i \in 1..Len(Rows) : ~RowOK(Rows[i])}
Some(S, k) == {i \in S : Cardinality({j \in S : j < i}) < k}
ASSUME \A i \in Some(Bad, 5) : PrintT(<<"C06-BAD", Rows[i]>>)
ASSUME PrintT(<<"C06-SUMMARY", Len(Rows), Cardinality(Bad), Cardinality({i \in 1..Len(Rows) : Rows[i].k # "pt"})>>)
=============================================================================
