---------------------------- MODULE MC_LiveShift ----------------------------
(***************************************************************************)
(* C14 at design level on the closed synchronous composition of MC_Live    *)
(* (four validators, silent primary, view changes, recovery; the clock     *)
(* jumps from expiry to expiry): in every reachable state, every delivery  *)
(* that is pending and every timer that may fire has the same outcomes     *)
(* against a world whose clock and timestamps read D more                  *)
(* (spec/ShiftInv.tla).                                                    *)
(***************************************************************************)
EXTENDS MC_Live
SI == INSTANCE ShiftInv
Deltas == {1000, 999990000}
ShiftInvariant ==
  \A D \in Deltas :
     /\ \A p \in pend : xs[p[2]].started => SI!ShiftInvariantAt(xs[p[2]], "OnReceive", p[1], EnvOf(p[2]), D)
     /\ \A i \in Live : (xs[i].started /\ ~xs[i].blockDone /\ xs[i].timer.k = "t") =>
           LET t == IF Due(i) > now THEN Due(i) ELSE now IN
             SI!ShiftInvariantAt(xs[i], "OnTimeout", [h |-> xs[i].timer.h, v |-> xs[i].timer.v], [EnvOf(i) EXCEPT !.now = t], D)
=============================================================================
