------------------------------ MODULE MC_Node ------------------------------
(***************************************************************************)
(* Open single-node composition of DbftNode.tla (design check).            *)
(*                                                                         *)
(* ONE node under test at height H, index Me of N validators; everybody    *)
(* else is the environment, which may at every step                        *)
(*   - deliver any payload of a finite menu under any other validator's    *)
(*     identity (proposals with two contents per view, responses naming    *)
(*     either content / the node's own proposal / junk, commits and        *)
(*     pre-commits valid for either block or junk, change views, recovery  *)
(*     requests, recovery messages assembled from those),                  *)
(*   - fire the timer with the current or a stale tag,                     *)
(*   - supply a transaction, notify a new transaction,                     *)
(*   - make ProcessPreBlock / ProcessBlock fail, find / not find           *)
(*     transactions in the pool.                                           *)
(* Node-local properties (C02, C03, C04, C05, C07, C10, C11, C12, C13)     *)
(* must hold whatever this environment does; they are checked as           *)
(* invariants / action properties over the node state and a history of     *)
(* what it broadcast.  `hist` also records the event sequence (hidden from *)
(* the fingerprint by VIEW) so that `tlc -simulate` prints behaviours for  *)
(* the harness' script driver (spec -> code direction).                    *)
(***************************************************************************)
EXTENDS Integers, Sequences, FiniteSets, TLC, Json

CONSTANTS N, Me, H, MaxView, AmevOn, WatchFlag, DynOn,
          Family,                   \* set of menu families enabled: "core", "equiv", "junk", "recovery", "tx", "app"
          DevEarlyCommitUnverified, Weaken, Emit, EmitLen,
          CoverMod                  \* state cover: print the schedule of one state in CoverMod (1 = every state)

Node == INSTANCE DbftNode

Val == 0..(N - 1)
Others == Val \ {Me}
Tpb == 1000
Now == 5000
Cfg == [tpb |-> Tpb, maxTpb |-> IF DynOn THEN 3000 ELSE 0, inc |-> 1, amevH |-> IF AmevOn THEN 0 ELSE -1, watch |-> WatchFlag]
\* family "next": the node is also taken through Reset to height H + 1, and payloads of H + 1 (view 0) may arrive while it is
\* still at H (future-message cache, replay in any order at Reset)
HasNext == "next" \in Family \/ "next1" \in Family      \* "next1": next-height payloads from two senders only (small enough for a state cover)
Hs == IF HasNext THEN {H, H + 1} ELSE {H}
Tip(g) == IF g = H THEN "T:tip" ELSE "T:tip2"
TipTs(g) == IF g = H THEN 4000 ELSE 4001
LedgerAt(g) == [height |-> g - 1, tip |-> Tip(g), tipTs |-> TipTs(g), nvals |-> N, myIndex |-> Me, vals |-> [i \in 1..N |-> IF i - 1 = Me THEN 500 ELSE i - 1]]
Ledger == LedgerAt(H)
PrimAt(g, v) == (g - v) % N
Prim(v) == PrimAt(H, v)
Views == 0..MaxView
ViewsAt(g) == IF g = H THEN Views ELSE {0}

\* two proposal contents per view (equivocation needs the second one)
Contents == IF "equiv" \in Family THEN {1, 2} ELSE {1}
TxsOf(c) == IF "tx" \in Family THEN (IF c = 1 THEN <<"tA">> ELSE <<"tA", "tB">>) ELSE <<>>
PropHashAt(g, v, c) == [h |-> g, v |-> v, from |-> PrimAt(g, v), ts |-> TipTs(g) + 1, nonce |-> IF c = 1 THEN "101" ELSE "102", txs |-> TxsOf(c)]
PropHash(v, c) == PropHashAt(H, v, c)
BlockOf(ph) == [h |-> ph.h, prev |-> Tip(ph.h), ts |-> ph.ts, nonce |-> ph.nonce, txs |-> ph.txs]
JunkHash(v) == [h |-> H, v |-> v, from |-> Prim(v), ts |-> 0, nonce |-> "junk0", txs |-> <<>>]
JunkBlock == [h |-> 0, prev |-> "", ts |-> 0, nonce |-> "junk:junk0", txs |-> <<>>]

VARIABLES x, hist
vars == <<x, hist>>

\* hashes the environment may name at view v: foreign proposals, and the node's own one once it exists
OwnPropsAt(s, g, v) == IF s.started /\ s.h = g /\ s.v = v /\ PrimAt(g, v) = Me /\ s.prep[Me + 1].k = "req" THEN {s.prep[Me + 1].ph} ELSE {}
KnownAt(s, g, v) == (IF PrimAt(g, v) = Me THEN {} ELSE {PropHashAt(g, v, c) : c \in Contents}) \cup OwnPropsAt(s, g, v)
Known(s, v) == KnownAt(s, H, v)
\* payloads of the next height (view 0 only): the proposal, responses and valid commits of the others, change views
NextMenu(s) ==
  IF ~HasNext THEN {}
  ELSE LET g == H + 1
           From == IF "next1" \in Family THEN Others \cap {PrimAt(g, 0), (Me + 1) % N, (Me + 2) % N} ELSE Others IN
    {[t |-> "PrepareRequest", h |-> g, v |-> 0, from |-> PrimAt(g, 0), ts |-> PropHashAt(g, 0, c).ts, nonce |-> PropHashAt(g, 0, c).nonce, txs |-> PropHashAt(g, 0, c).txs]
       : c \in (IF PrimAt(g, 0) = Me THEN {} ELSE Contents)}
    \cup {[t |-> "PrepareResponse", h |-> g, v |-> 0, from |-> i, ph |-> ph] : i \in From \ {PrimAt(g, 0)}, ph \in KnownAt(s, g, 0)}
    \cup {[t |-> "Commit", h |-> g, v |-> 0, from |-> i, s |-> i, b |-> BlockOf(ph)] : i \in From, ph \in KnownAt(s, g, 0)}
    \cup {[t |-> "ChangeView", h |-> g, v |-> 0, from |-> i, ts |-> Now, nv |-> 1, reason |-> 0] : i \in From}

Reqs == {[t |-> "PrepareRequest", h |-> H, v |-> v, from |-> Prim(v), ts |-> PropHash(v, c).ts, nonce |-> PropHash(v, c).nonce, txs |-> PropHash(v, c).txs]
           : v \in {w \in Views : Prim(w) # Me}, c \in Contents}
\* family "junk1": junk only under one identity (keeps the exhaustive run small)
JunkFrom == IF "junk1" \in Family THEN {(Me + 1) % N} ELSE Others
HasJunk == "junk" \in Family \/ "junk1" \in Family
Resps(s) == UNION {{[t |-> "PrepareResponse", h |-> H, v |-> v, from |-> i, ph |-> ph] : i \in Others, ph \in Known(s, v)} : v \in Views}
            \cup (IF HasJunk THEN {[t |-> "PrepareResponse", h |-> H, v |-> v, from |-> i, ph |-> JunkHash(v)] : v \in Views, i \in JunkFrom} ELSE {})
Sigs(s, t) == UNION {{[t |-> t, h |-> H, v |-> v, from |-> i, s |-> i, b |-> BlockOf(ph)] : i \in Others, ph \in Known(s, v)} : v \in Views}
              \cup (IF HasJunk THEN {[t |-> t, h |-> H, v |-> v, from |-> i, s |-> -1, b |-> JunkBlock] : v \in Views, i \in JunkFrom} ELSE {})
Cvs == {[t |-> "ChangeView", h |-> H, v |-> v, from |-> i, ts |-> Now, nv |-> v + 1, reason |-> 0] : v \in Views, i \in Others}
RReqs == IF "recovery" \in Family THEN {[t |-> "RecoveryRequest", h |-> H, v |-> v, from |-> i, ts |-> Now] : v \in Views, i \in Others} ELSE {}
\* recovery messages: the proposal of the view, responses of everybody else, and optionally everybody's commits / change views
RMsgs(s) ==
  IF "recovery" \notin Family THEN {}
  ELSE UNION {{ [t |-> "RecoveryMessage", h |-> H, v |-> v, from |-> i,
                 prep |-> (IF Prim(v) = Me THEN <<>> ELSE <<[t |-> "PrepareRequest", h |-> H, v |-> v, from |-> Prim(v), ts |-> ph.ts, nonce |-> ph.nonce, txs |-> ph.txs]>>)
                          \o (IF wr THEN Node!SeqOf(Others \ {Prim(v)}, LAMBDA j : [t |-> "PrepareResponse", h |-> H, v |-> v, from |-> j, ph |-> ph]) ELSE <<>>),
                 cvs |-> (IF wc /\ v > 0 THEN Node!SeqOf(Others, LAMBDA j : [t |-> "ChangeView", h |-> H, v |-> v - 1, from |-> j, ts |-> Now, nv |-> v, reason |-> 0]) ELSE <<>>),
                 pcs |-> <<>>,
                 cms |-> (IF wm THEN Node!SeqOf(Others, LAMBDA j : [t |-> "Commit", h |-> H, v |-> v, from |-> j, s |-> j, b |-> BlockOf(ph)]) ELSE <<>>)]
               : wr \in BOOLEAN, wc \in BOOLEAN, wm \in BOOLEAN, i \in Others, ph \in Known(s, v) \cup (IF Prim(v) = Me THEN {PropHash(v, 1)} ELSE {})}
             : v \in Views }
Garbage == IF "junk" \in Family
           THEN {[t |-> "ChangeView", h |-> H, v |-> 0, from |-> N, ts |-> Now, nv |-> 1, reason |-> 0],
                 [t |-> "Commit", h |-> H - 1, v |-> 0, from |-> 0, s |-> -1, b |-> JunkBlock],
                 [t |-> "PrepareRequest", h |-> H, v |-> 0, from |-> (Prim(0) + 1) % N, ts |-> 4001, nonce |-> "109", txs |-> <<>>]}
           ELSE {}
\* family "echo": the node is a restarted validator (empty consensus state, same key): what its previous incarnation may have
\* said at this height comes back to it (a relay's recovery message hands such payloads to OnReceive like anybody else's; there is
\* no self-filter).  An honest previous incarnation said at most: its proposal, a response / (pre)commit for a proposal, a change view.
Echo(s) ==
  IF "echo" \notin Family THEN {}
  ELSE UNION {   {[t |-> "PrepareRequest", h |-> H, v |-> v, from |-> Me, ts |-> PropHash(v, 1).ts, nonce |-> PropHash(v, 1).nonce, txs |-> PropHash(v, 1).txs] : w \in {v} \cap {u \in Views : Prim(u) = Me}}
            \cup {[t |-> "PrepareResponse", h |-> H, v |-> v, from |-> Me, ph |-> ph] : ph \in (IF Prim(v) = Me THEN {} ELSE Known(s, v))}
            \cup {[t |-> "Commit", h |-> H, v |-> v, from |-> Me, s |-> 500, b |-> BlockOf(ph)] : ph \in Known(s, v) \cup (IF Prim(v) = Me THEN {PropHash(v, 1)} ELSE {})}
            \cup (IF AmevOn THEN {[t |-> "PreCommit", h |-> H, v |-> v, from |-> Me, s |-> 500, b |-> BlockOf(ph)] : ph \in Known(s, v) \cup (IF Prim(v) = Me THEN {PropHash(v, 1)} ELSE {})} ELSE {})
            \cup {[t |-> "ChangeView", h |-> H, v |-> v, from |-> Me, ts |-> Now, nv |-> v + 1, reason |-> 0]}
          : v \in Views }
Menu(s) == Echo(s) \cup Reqs \cup Resps(s) \cup Sigs(s, "Commit") \cup (IF AmevOn \/ HasJunk THEN Sigs(s, "PreCommit") ELSE {})
           \cup Cvs \cup RReqs \cup RMsgs(s) \cup Garbage \cup NextMenu(s)

\* what the application answers
EnvsAt(g) == {[now |-> Now, ledger |-> LedgerAt(g), known |-> kn, pool |-> pl, bad |-> bd, failPre |-> fp, failBlock |-> fb, nilBlock |-> FALSE,
          rejects |-> {}, nonce |-> "201", rttOldNext |-> 0, rmOrder |-> <<>>]
           : kn \in (IF "tx" \in Family THEN {{}, {"tA", "tB"}} ELSE {{}}),
             pl \in (IF "tx" \in Family THEN {<<>>, <<"tA">>} ELSE {<<>>}),
             bd \in (IF "app" \in Family THEN {{}, {"tB"}} ELSE {{}}),
             fp \in (IF "app" \in Family /\ AmevOn THEN {0, 1} ELSE {0}),
             fb \in (IF "app" \in Family /\ AmevOn THEN {0, 1} ELSE {0})}
Env0 == [now |-> Now, ledger |-> Ledger, known |-> {}, pool |-> <<>>, bad |-> {}, failPre |-> 0, failBlock |-> 0, nilBlock |-> FALSE,
         rejects |-> {}, nonce |-> "201", rttOldNext |-> 0, rmOrder |-> <<>>]

Calls(s) ==
  {[call |-> "OnReceive", arg |-> m] : m \in Menu(s)}
  \cup {[call |-> "OnTimeout", arg |-> [h |-> s.h, v |-> v]] : v \in Views}
  \cup (IF HasNext /\ s.blockDone /\ s.h = H THEN {[call |-> "Reset", arg |-> [ts |-> TipTs(H + 1)]]} ELSE {})
  \cup (IF "tx" \in Family THEN {[call |-> "OnTransaction", arg |-> [tx |-> t]] : t \in {"tA", "tB"}} ELSE {})
  \cup (IF DynOn THEN {[call |-> "OnNewTransaction", arg |-> [none |-> 0]]} ELSE {})
  \* family "flip": the application's WatchOnly callback starts answering TRUE at any moment (the validator is demoted to an
  \* observer while it runs); not a library call
  \cup (IF "flip" \in Family /\ ~s.cfg.watch THEN {[call |-> "SetWatch", arg |-> [none |-> 0]]} ELSE {})

Strip(o) == [o EXCEPT !.out = <<>>, !.env = [now |-> 0], !.fp = 0, !.fb = 0]

\* ---- history: what the node made visible ----
Bcasts(out) == {out[j].m : j \in {k \in 1..Len(out) : out[k].k = "Broadcast"}}
Embedded(m) == IF m.t = "RecoveryMessage" THEN Node!Range(m.prep) \cup Node!Range(m.cvs) \cup Node!Range(m.pcs) \cup Node!Range(m.cms) ELSE {}
OwnIn(m) == {m} \cup {p \in Embedded(m) : p.from = m.from}
Kinds == {"PrepareRequest", "PrepareResponse", "Commit", "PreCommit", "ChangeView"}
\* sent / nblock / npre are per height (cleared by Reset)
Hist0 == [sent |-> {}, nblock |-> 0, npre |-> 0, evs |-> <<>>]
NextHist(o, ev) ==
  LET base == IF ev.call = "Reset" THEN Hist0 ELSE hist IN
  [sent |-> base.sent \cup {p \in UNION {OwnIn(m) : m \in Bcasts(o.out)} : p.t \in Kinds},
   nblock |-> base.nblock + Cardinality({j \in 1..Len(o.out) : o.out[j].k = "ProcessBlock" /\ o.out[j].ok}),
   npre |-> base.npre + Cardinality({j \in 1..Len(o.out) : o.out[j].k = "ProcessPreBlock" /\ o.out[j].ok}),
   evs |-> IF Emit THEN Append(hist.evs, ev) ELSE <<>>]

Init == \E o \in Node!Api(Node!Blank(Cfg), "Start", [ts |-> Ledger.tipTs], Env0) :
          /\ x = Strip(o)
          /\ hist = [Hist0 EXCEPT !.sent = {p \in UNION {OwnIn(m) : m \in Bcasts(o.out)} : p.t \in Kinds},
                                  !.evs = IF Emit THEN <<[call |-> "Start", arg |-> [ts |-> Ledger.tipTs], env |-> Env0, cfg |-> Cfg]>> ELSE <<>>]

Flip(c, env) == /\ x' = [x EXCEPT !.cfg.watch = TRUE, !.watch = TRUE]
                /\ hist' = [hist EXCEPT !.evs = IF Emit THEN Append(@, [call |-> c.call, arg |-> c.arg, env |-> env]) ELSE <<>>]
Step(c, env) == IF c.call = "SetWatch" THEN Flip(c, env) ELSE
                \E o \in Node!Api(x, c.call, c.arg, env) :
                   /\ Strip(o) # x \/ o.out # <<>>          \* skip pure no-ops: they add no behaviour
                   /\ x' = Strip(o)
                   /\ hist' = NextHist(o, [call |-> c.call, arg |-> c.arg, env |-> env])
\* the application's ledger: at height H until Reset is called, which reads the advanced one
Next == \E c \in Calls(x) : \E env \in EnvsAt(IF c.call = "Reset" THEN H + 1 ELSE x.h) : Step(c, env)
Spec == Init /\ [][Next]_vars
ViewBound == x.v <= MaxView
View == <<x, hist.sent, hist.nblock, hist.npre>>

-----------------------------------------------------------------------------
\* Properties (model level)

M == N - (N - 1) \div 3
Own(t) == {p \in hist.sent : p.t = t}
\* C03
OneProposalPerView == \A a, b \in Own("PrepareRequest") : a.v = b.v => a = b
OneResponsePerView == \A a, b \in Own("PrepareResponse") : a.v = b.v => a = b
OneCommit == Cardinality({[v |-> p.v, s |-> p.s, b |-> p.b] : p \in Own("Commit")}) <= 1
OnePreCommit == Cardinality({[v |-> p.v, s |-> p.s, b |-> p.b] : p \in Own("PreCommit")}) <= 1
\* (a validator demoted to watch-only afterwards is an observer: it may follow the others' views, silently)
CommitLock == [][(Own("Commit") \cup Own("PreCommit") # {} /\ x'.h = x.h /\ ~x'.watch) => (x'.v = x.v /\ Own("ChangeView")' = Own("ChangeView"))]_vars
\* C04: whenever the node holds its own commit (pre-commit) of the current view, it holds the proposal and M matching preparations
ReqPh == x.prep[x.primary + 1].ph
Matching == {i \in 1..x.n : x.prep[i].k \in {"req", "resp"} /\ x.prep[i].v = x.v /\ x.prep[i].ph = ReqPh}
LockSlot == IF x.amev THEN x.pc[Me + 1] ELSE x.cm[Me + 1]
CommitEvidence == (x.me = Me /\ ~x.watch /\ LockSlot.k # "none" /\ LockSlot.v = x.v) =>
                     (x.prep[x.primary + 1].k = "req" /\ Cardinality(Matching) >= M /\ Node!Range(x.txs) \subseteq x.have)
ViewEvidence == x.v > 0 => Cardinality({i \in 1..x.n : x.lastcv[i].k = "cv" /\ x.lastcv[i].nv >= x.v}) >= M
ResponseEvidence == \A p \in Own("PrepareResponse") : p.v = x.v => (x.prep[x.primary + 1].k = "req" /\ p.ph = ReqPh /\ ReqPh.from = PrimAt(x.h, x.v))
\* C02: once the block is handed over, M commits of the view verify against it
ValidCm == {i \in 1..x.n : x.cm[i].k = "cm" /\ x.cm[i].v = x.v /\ x.cm[i].s = x.vals[i] /\ x.cm[i].b = Node!CtxBlock(x)}
Certificate == x.blockDone => Cardinality(ValidCm) >= M      \* view and tables are frozen once the block is handed over
ValidPc == {i \in 1..x.n : x.pc[i].k = "pc" /\ x.pc[i].v = x.v /\ x.pc[i].s = x.vals[i] /\ x.pc[i].b = Node!CtxBlock(x)}
\* evaluated at the step in which ProcessPreBlock succeeds (the flag outlives a later view change of a node that has not pre-committed)
PreCertificate == [][hist'.npre > hist.npre => Cardinality({i \in 1..x'.n : x'.pc[i].k = "pc" /\ x'.pc[i].v = x'.v /\ x'.pc[i].s = x'.vals[i] /\ x'.pc[i].b = Node!CtxBlock(x')}) >= M]_vars
\* C05
OneDecision == hist.nblock <= 1 /\ (x.blockDone <=> hist.nblock = 1)
\* C05, Reset: the next height starts from the ledger and from nothing but the payloads cached for it, and those are used
FromCacheM(slot, i, kind) == slot.k = "none" \/ i = Me + 1 \/ \E c \in x.cache : c.h = x.h + 1 /\ c.kind = kind /\ c.from = i - 1
ResetClean == [][x'.h # x.h =>
                  /\ x'.h = x.h + 1 /\ x.blockDone /\ x'.prev = Tip(x'.h) /\ x'.lbTs = TipTs(x'.h) /\ x'.primary = PrimAt(x'.h, x'.v)
                  /\ \A i \in 1..x'.n : /\ FromCacheM(x'.prep[i], i, "prepare") /\ FromCacheM(x'.cm[i], i, "commit")
                                         /\ FromCacheM(x'.pc[i], i, "preCommit") /\ FromCacheM(x'.cv[i], i, "chViews") /\ FromCacheM(x'.lastcv[i], i, "chViews")
                                         /\ (x'.cm[i].k = "cm" /\ i # Me + 1 => \E c \in x.cache : c.h = x'.h /\ c.kind = "commit" /\ c.from = i - 1 /\ c.p.s = x'.cm[i].s /\ c.p.b = x'.cm[i].b)
                  /\ \A c \in x'.cache : c.h > x'.h
                  /\ x'.have \subseteq Node!Range(x'.txs)]_vars
EarlyUsed == [][(x'.h = x.h + 1 /\ x'.v = 0) =>
                  \A c \in x.cache : (c.h = x'.h /\ c.kind = "prepare" /\ c.p.t = "PrepareRequest" /\ c.p.v = 0 /\ c.from = PrimAt(x'.h, 0)) => x'.prep[c.from + 1].k = "req"]_vars
\* C07
PreBlockOnce == hist.npre <= 1
PhaseOrder == (x.amev /\ Own("Commit") # {}) => (Own("PreCommit") # {} /\ x.preDone)
AmevOff == ~x.amev => (Own("PreCommit") = {} /\ hist.npre = 0 /\ \A i \in 1..x.n : x.pc[i].k = "none")
\* C10
TimerOK == (~x.watch /\ ~x.blockDone) => (x.timer.k = "t" /\ x.timer.h = x.h /\ x.timer.v = x.v /\ x.timer.d >= 0)
\* C13
Silent == (x.watch /\ "flip" \notin Family) => hist.sent = {}
\* ... and from the moment the flag is set (family "flip"): nothing more is made visible
SilentStep == [][x.watch => hist'.sent = hist.sent]_vars
\* C11 / C06
HeldTxsBelong == x.have \subseteq Node!Range(x.txs)
PrimaryOK == x.primary = (x.h - x.v) % x.n

\* behaviours for the script driver (spec -> code): printed by `tlc -simulate` at the depth bound
EmitBehaviour == (Emit /\ Len(hist.evs) \in {EmitLen, EmitLen \div 2, 6}) => PrintT(<<"BEHAVIOUR", ToJson(hist.evs)>>)
\* state cover (spec -> code): in breadth-first mode every distinct state is reached by exactly one stored schedule (hist is
\* hidden by VIEW); printing it for every state gives a prefix-closed tree of schedules whose leaves visit every reachable state
EmitCover == (Emit /\ (CoverMod = 1 \/ TLCGet("generated") % CoverMod = 0)) => PrintT(<<"COVER", ToJson(hist.evs)>>)
=============================================================================
