------------------------------ MODULE MC_Node ------------------------------
(***************************************************************************)
(* Open single-node composition of DbftNode.tla (design check).            *)
(*                                                                         *)
(* ONE node under test at height H, index Me of N validators; everybody    *)
(* else is the environment, which may at every step                        *)
(*   - deliver any payload of a finite menu under any other validator's    *)
(*     identity (proposals with two contents per view, responses naming    *)
(*     either content / the node's own proposal / junk, commits and        *)
(*     pre-commits valid for either block or junk, change views, recovery  *)
(*     requests, recovery messages assembled from those),                  *)
(*   - fire the timer with the current or a stale tag,                     *)
(*   - supply a transaction, notify a new transaction,                     *)
(*   - make ProcessPreBlock / ProcessBlock fail, find / not find           *)
(*     transactions in the pool.                                           *)
(* Node-local properties (C02, C03, C04, C05, C07, C10, C11, C12, C13)     *)
(* must hold whatever this environment does; they are checked as           *)
(* invariants / action properties over the node state and a history of     *)
(* what it broadcast.  `hist` also records the event sequence (hidden from *)
(* the fingerprint by VIEW) so that `tlc -simulate` prints behaviours for  *)
(* the harness' script driver (spec -> code direction).                    *)
(***************************************************************************)
EXTENDS Integers, Sequences, FiniteSets, TLC, Json

CONSTANTS N, Me, H, MaxView, AmevOn, WatchFlag, DynOn,
          Family,                   \* set of menu families enabled: "core", "equiv", "junk", "recovery", "tx", "app"
          DevEarlyCommitUnverified, Weaken, Emit, EmitLen

Node == INSTANCE DbftNode

Val == 0..(N - 1)
Others == Val \ {Me}
Tpb == 1000
Now == 5000
Cfg == [tpb |-> Tpb, maxTpb |-> IF DynOn THEN 3000 ELSE 0, inc |-> 1, amevH |-> IF AmevOn THEN 0 ELSE -1, watch |-> WatchFlag]
Ledger == [height |-> H - 1, tip |-> "T:tip", tipTs |-> 4000, nvals |-> N, myIndex |-> Me, vals |-> [i \in 1..N |-> IF i - 1 = Me THEN 500 ELSE i - 1]]
Prim(v) == (H - v) % N
Views == 0..MaxView

\* two proposal contents per view (equivocation needs the second one)
Contents == IF "equiv" \in Family THEN {1, 2} ELSE {1}
TxsOf(c) == IF "tx" \in Family THEN (IF c = 1 THEN <<"tA">> ELSE <<"tA", "tB">>) ELSE <<>>
PropHash(v, c) == [h |-> H, v |-> v, from |-> Prim(v), ts |-> 4001, nonce |-> IF c = 1 THEN "101" ELSE "102", txs |-> TxsOf(c)]
BlockOf(ph) == [h |-> H, prev |-> "T:tip", ts |-> ph.ts, nonce |-> ph.nonce, txs |-> ph.txs]
JunkHash(v) == [h |-> H, v |-> v, from |-> Prim(v), ts |-> 0, nonce |-> "junk0", txs |-> <<>>]
JunkBlock == [h |-> 0, prev |-> "", ts |-> 0, nonce |-> "junk:junk0", txs |-> <<>>]

VARIABLES x, hist
vars == <<x, hist>>

\* hashes the environment may name at view v: foreign proposals, and the node's own one once it exists
OwnProps(s, v) == IF s.started /\ s.v = v /\ Prim(v) = Me /\ s.prep[Me + 1].k = "req" THEN {s.prep[Me + 1].ph} ELSE {}
Known(s, v) == (IF Prim(v) = Me THEN {} ELSE {PropHash(v, c) : c \in Contents}) \cup OwnProps(s, v)

Reqs == {[t |-> "PrepareRequest", h |-> H, v |-> v, from |-> Prim(v), ts |-> PropHash(v, c).ts, nonce |-> PropHash(v, c).nonce, txs |-> PropHash(v, c).txs]
           : v \in {w \in Views : Prim(w) # Me}, c \in Contents}
\* family "junk1": junk only under one identity (keeps the exhaustive run small)
JunkFrom == IF "junk1" \in Family THEN {(Me + 1) % N} ELSE Others
HasJunk == "junk" \in Family \/ "junk1" \in Family
Resps(s) == UNION {{[t |-> "PrepareResponse", h |-> H, v |-> v, from |-> i, ph |-> ph] : i \in Others, ph \in Known(s, v)} : v \in Views}
            \cup (IF HasJunk THEN {[t |-> "PrepareResponse", h |-> H, v |-> v, from |-> i, ph |-> JunkHash(v)] : v \in Views, i \in JunkFrom} ELSE {})
Sigs(s, t) == UNION {{[t |-> t, h |-> H, v |-> v, from |-> i, s |-> i, b |-> BlockOf(ph)] : i \in Others, ph \in Known(s, v)} : v \in Views}
              \cup (IF HasJunk THEN {[t |-> t, h |-> H, v |-> v, from |-> i, s |-> -1, b |-> JunkBlock] : v \in Views, i \in JunkFrom} ELSE {})
Cvs == {[t |-> "ChangeView", h |-> H, v |-> v, from |-> i, ts |-> Now, nv |-> v + 1, reason |-> 0] : v \in Views, i \in Others}
RReqs == IF "recovery" \in Family THEN {[t |-> "RecoveryRequest", h |-> H, v |-> v, from |-> i, ts |-> Now] : v \in Views, i \in Others} ELSE {}
\* recovery messages: the proposal of the view, responses of everybody else, and optionally everybody's commits / change views
RMsgs(s) ==
  IF "recovery" \notin Family THEN {}
  ELSE UNION {{ [t |-> "RecoveryMessage", h |-> H, v |-> v, from |-> i,
                 prep |-> (IF Prim(v) = Me THEN <<>> ELSE <<[t |-> "PrepareRequest", h |-> H, v |-> v, from |-> Prim(v), ts |-> ph.ts, nonce |-> ph.nonce, txs |-> ph.txs]>>)
                          \o (IF wr THEN Node!SeqOf(Others \ {Prim(v)}, LAMBDA j : [t |-> "PrepareResponse", h |-> H, v |-> v, from |-> j, ph |-> ph]) ELSE <<>>),
                 cvs |-> (IF wc /\ v > 0 THEN Node!SeqOf(Others, LAMBDA j : [t |-> "ChangeView", h |-> H, v |-> v - 1, from |-> j, ts |-> Now, nv |-> v, reason |-> 0]) ELSE <<>>),
                 pcs |-> <<>>,
                 cms |-> (IF wm THEN Node!SeqOf(Others, LAMBDA j : [t |-> "Commit", h |-> H, v |-> v, from |-> j, s |-> j, b |-> BlockOf(ph)]) ELSE <<>>)]
               : wr \in BOOLEAN, wc \in BOOLEAN, wm \in BOOLEAN, i \in Others, ph \in Known(s, v) \cup (IF Prim(v) = Me THEN {PropHash(v, 1)} ELSE {})}
             : v \in Views }
Garbage == IF "junk" \in Family
           THEN {[t |-> "ChangeView", h |-> H, v |-> 0, from |-> N, ts |-> Now, nv |-> 1, reason |-> 0],
                 [t |-> "Commit", h |-> H - 1, v |-> 0, from |-> 0, s |-> -1, b |-> JunkBlock],
                 [t |-> "PrepareRequest", h |-> H, v |-> 0, from |-> (Prim(0) + 1) % N, ts |-> 4001, nonce |-> "109", txs |-> <<>>]}
           ELSE {}
Menu(s) == Reqs \cup Resps(s) \cup Sigs(s, "Commit") \cup (IF AmevOn \/ HasJunk THEN Sigs(s, "PreCommit") ELSE {})
           \cup Cvs \cup RReqs \cup RMsgs(s) \cup Garbage

\* what the application answers
Envs == {[now |-> Now, ledger |-> Ledger, known |-> kn, pool |-> pl, bad |-> bd, failPre |-> fp, failBlock |-> fb, nilBlock |-> FALSE,
          rejects |-> {}, nonce |-> "201", rttOldNext |-> 0, rmOrder |-> <<>>]
           : kn \in (IF "tx" \in Family THEN {{}, {"tA", "tB"}} ELSE {{}}),
             pl \in (IF "tx" \in Family THEN {<<>>, <<"tA">>} ELSE {<<>>}),
             bd \in (IF "app" \in Family THEN {{}, {"tB"}} ELSE {{}}),
             fp \in (IF "app" \in Family /\ AmevOn THEN {0, 1} ELSE {0}),
             fb \in (IF "app" \in Family /\ AmevOn THEN {0, 1} ELSE {0})}
Env0 == [now |-> Now, ledger |-> Ledger, known |-> {}, pool |-> <<>>, bad |-> {}, failPre |-> 0, failBlock |-> 0, nilBlock |-> FALSE,
         rejects |-> {}, nonce |-> "201", rttOldNext |-> 0, rmOrder |-> <<>>]

Calls(s) ==
  {[call |-> "OnReceive", arg |-> m] : m \in Menu(s)}
  \cup {[call |-> "OnTimeout", arg |-> [h |-> H, v |-> v]] : v \in Views}
  \cup (IF "tx" \in Family THEN {[call |-> "OnTransaction", arg |-> [tx |-> t]] : t \in {"tA", "tB"}} ELSE {})
  \cup (IF DynOn THEN {[call |-> "OnNewTransaction", arg |-> [none |-> 0]]} ELSE {})

Strip(o) == [o EXCEPT !.out = <<>>, !.env = [now |-> 0], !.fp = 0, !.fb = 0]

\* ---- history: what the node made visible ----
Bcasts(out) == {out[j].m : j \in {k \in 1..Len(out) : out[k].k = "Broadcast"}}
Embedded(m) == IF m.t = "RecoveryMessage" THEN Node!Range(m.prep) \cup Node!Range(m.cvs) \cup Node!Range(m.pcs) \cup Node!Range(m.cms) ELSE {}
OwnIn(m) == {m} \cup {p \in Embedded(m) : p.from = m.from}
Kinds == {"PrepareRequest", "PrepareResponse", "Commit", "PreCommit", "ChangeView"}
Hist0 == [sent |-> {}, nblock |-> 0, npre |-> 0, evs |-> <<>>]
NextHist(o, ev) ==
  [sent |-> hist.sent \cup {p \in UNION {OwnIn(m) : m \in Bcasts(o.out)} : p.t \in Kinds},
   nblock |-> hist.nblock + Cardinality({j \in 1..Len(o.out) : o.out[j].k = "ProcessBlock" /\ o.out[j].ok}),
   npre |-> hist.npre + Cardinality({j \in 1..Len(o.out) : o.out[j].k = "ProcessPreBlock" /\ o.out[j].ok}),
   evs |-> IF Emit THEN Append(hist.evs, ev) ELSE <<>>]

Init == \E o \in Node!Api(Node!Blank(Cfg), "Start", [ts |-> Ledger.tipTs], Env0) :
          /\ x = Strip(o)
          /\ hist = [Hist0 EXCEPT !.sent = {p \in UNION {OwnIn(m) : m \in Bcasts(o.out)} : p.t \in Kinds},
                                  !.evs = IF Emit THEN <<[call |-> "Start", arg |-> [ts |-> Ledger.tipTs], env |-> Env0, cfg |-> Cfg]>> ELSE <<>>]

Step(c, env) == \E o \in Node!Api(x, c.call, c.arg, env) :
                   /\ Strip(o) # x \/ o.out # <<>>          \* skip pure no-ops: they add no behaviour
                   /\ x' = Strip(o)
                   /\ hist' = NextHist(o, [call |-> c.call, arg |-> c.arg, env |-> env])
Next == \E c \in Calls(x) : \E env \in Envs : Step(c, env)
Spec == Init /\ [][Next]_vars
ViewBound == x.v <= MaxView
View == <<x, hist.sent, hist.nblock, hist.npre>>

-----------------------------------------------------------------------------
\* Properties (model level)

M == N - (N - 1) \div 3
Own(t) == {p \in hist.sent : p.t = t}
\* C03
OneProposalPerView == \A a, b \in Own("PrepareRequest") : a.v = b.v => a = b
OneResponsePerView == \A a, b \in Own("PrepareResponse") : a.v = b.v => a = b
OneCommit == Cardinality({[v |-> p.v, s |-> p.s, b |-> p.b] : p \in Own("Commit")}) <= 1
OnePreCommit == Cardinality({[v |-> p.v, s |-> p.s, b |-> p.b] : p \in Own("PreCommit")}) <= 1
CommitLock == [][(Own("Commit") \cup Own("PreCommit") # {}) => (x'.v = x.v /\ Own("ChangeView")' = Own("ChangeView"))]_vars
\* C04: whenever the node holds its own commit (pre-commit) of the current view, it holds the proposal and M matching preparations
ReqPh == x.prep[x.primary + 1].ph
Matching == {i \in 1..x.n : x.prep[i].k \in {"req", "resp"} /\ x.prep[i].v = x.v /\ x.prep[i].ph = ReqPh}
LockSlot == IF x.amev THEN x.pc[Me + 1] ELSE x.cm[Me + 1]
CommitEvidence == (x.me = Me /\ ~x.watch /\ LockSlot.k # "none" /\ LockSlot.v = x.v) =>
                     (x.prep[x.primary + 1].k = "req" /\ Cardinality(Matching) >= M /\ Node!Range(x.txs) \subseteq x.have)
ViewEvidence == x.v > 0 => Cardinality({i \in 1..x.n : x.lastcv[i].k = "cv" /\ x.lastcv[i].nv >= x.v}) >= M
ResponseEvidence == \A p \in Own("PrepareResponse") : p.v = x.v => (x.prep[x.primary + 1].k = "req" /\ p.ph = ReqPh /\ ReqPh.from = Prim(x.v))
\* C02: once the block is handed over, M commits of the view verify against it
ValidCm == {i \in 1..x.n : x.cm[i].k = "cm" /\ x.cm[i].v = x.v /\ x.cm[i].s = x.vals[i] /\ x.cm[i].b = Node!CtxBlock(x)}
Certificate == x.blockDone => Cardinality(ValidCm) >= M      \* view and tables are frozen once the block is handed over
ValidPc == {i \in 1..x.n : x.pc[i].k = "pc" /\ x.pc[i].v = x.v /\ x.pc[i].s = x.vals[i] /\ x.pc[i].b = Node!CtxBlock(x)}
\* evaluated at the step in which ProcessPreBlock succeeds (the flag outlives a later view change of a node that has not pre-committed)
PreCertificate == [][hist'.npre > hist.npre => Cardinality({i \in 1..x'.n : x'.pc[i].k = "pc" /\ x'.pc[i].v = x'.v /\ x'.pc[i].s = x'.vals[i] /\ x'.pc[i].b = Node!CtxBlock(x')}) >= M]_vars
\* C05
OneDecision == hist.nblock <= 1 /\ (x.blockDone <=> hist.nblock = 1)
\* C07
PreBlockOnce == hist.npre <= 1
PhaseOrder == (x.amev /\ Own("Commit") # {}) => (Own("PreCommit") # {} /\ x.preDone)
AmevOff == ~x.amev => (Own("PreCommit") = {} /\ hist.npre = 0 /\ \A i \in 1..x.n : x.pc[i].k = "none")
\* C10
TimerOK == (~x.watch /\ ~x.blockDone) => (x.timer.k = "t" /\ x.timer.h = x.h /\ x.timer.v = x.v /\ x.timer.d >= 0)
\* C13
Silent == x.watch => hist.sent = {}
\* C11 / C06
HeldTxsBelong == x.have \subseteq Node!Range(x.txs)
PrimaryOK == x.primary = (x.h - x.v) % x.n

\* behaviours for the script driver (spec -> code): printed by `tlc -simulate` at the depth bound
EmitBehaviour == (Emit /\ Len(hist.evs) \in {EmitLen, EmitLen \div 2, 6}) => PrintT(<<"BEHAVIOUR", ToJson(hist.evs)>>)
=============================================================================
