--------------------------- MODULE PayloadAlgebra ---------------------------
(***************************************************************************)
(* C19 (value-level clauses): what the bundled reference payload / block / *)
(* crypto / merkle code must satisfy, as an expectation table over the     *)
(* rows the harness driver "payload" produces with the real code.          *)
(*   mut      base object vs. the object with exactly one field changed:   *)
(*            hashes must differ for every consensus-relevant field and    *)
(*            be equal for "none" (same content built twice, hashed twice) *)
(*            and for a block's signature                                  *)
(*   codec    encode, decode: succeeds and reproduces the payload          *)
(*   garbage  truncated / bit-flipped / random bytes: never a panic        *)
(*   recovery proposal and responses rebuilt from a recovery message (as   *)
(*            built, and after encode/decode) carry the original hash      *)
(*   sig      a signature verifies only under the signer's key and data    *)
(*   merkle   any leaf or order change changes the root                    *)
(***************************************************************************)
EXTENDS Integers, Sequences, FiniteSets, TLC, Json, IOUtils
Rows == ndJsonDeserialize(IOEnv.VERIF_TRACE)
HashNeutral == {"none", "own-signature"}   \* a block's hash is unaffected by its signature
RowOK(r) ==
  CASE r.k = "mut" -> r.same = (r.field \in HashNeutral)
    [] r.k = "codec" -> r.ok /\ r.same /\ ~r.panic
    [] r.k = "garbage" -> ~r.panic
    [] r.k = "recovery" -> r.ok /\ r.same /\ ~r.panic
    [] r.k = "sig" -> r.ok = (r.field = "same-key-same-data")
    [] r.k = "merkle" -> ~r.same
    [] OTHER -> FALSE
Bad == {i \in 1..Len(Rows) : ~RowOK(Rows[i])}
VARIABLE x
Init == /\ x = 0
        /\ \A i \in Bad : PrintT(<<"VIOL", "C19", Rows[i].k, Rows[i].obj, Rows[i].field, Rows[i].n>>)
        /\ PrintT(<<"PAYLOAD-SUMMARY", Len(Rows), Cardinality(Bad)>>)
Next == FALSE /\ x' = x
Spec == Init /\ [][Next]_x
Post == TLCGet("stats").diameter = 1
=============================================================================
