------------------------------ MODULE MC_Live ------------------------------
(***************************************************************************)
(* C09 at design level: closed composition of DbftNode.tla over one height *)
(* on a SYNCHRONOUS network with silent validators, against a clock.       *)
(*                                                                         *)
(* The validators in Silent never start (silent from the start); the       *)
(* others run the node specification.  A broadcast payload becomes pending *)
(* for every other live validator; pending payloads are delivered in any   *)
(* order, in zero time.  A timer fires only when nothing is pending        *)
(* anywhere ("every message is delivered before the next timer expires"),  *)
(* and then it is the timer that is due first; the clock jumps to its due  *)
(* instant.  Optionally one set of validators (any member of CutSets) is   *)
(* completely cut off - it hears nothing and nobody hears it; whatever was *)
(* pending to or from it is lost - right after start-up or (CutAnyTime) at *)
(* any later moment, until the partition heals after HealAfter further     *)
(* timer expiries.                                                         *)
(*                                                                         *)
(* Properties:                                                             *)
(*   Agreement                                                             *)
(*   ViewBound     a block is accepted in a view <= |Silent|               *)
(*   Termination   <>(every live validator has accepted the block), under  *)
(*                 weak fairness of the next-state relation: on this       *)
(*                 finite graph = no reachable terminal state or cycle in  *)
(*                 which somebody is still undecided.                      *)
(* The schedule (hist.evs, hidden by VIEW) is executed on real nodes.      *)
(***************************************************************************)
EXTENDS Integers, Sequences, FiniteSets, TLC, Json

CONSTANTS N, H, Silent, CutSets, CutAnyTime, HealAfter, RestartSet, RestartAnyTime, AmevOn, MaxView, Emit, CoverMod

Node == INSTANCE DbftNode WITH DevEarlyCommitUnverified <- TRUE, Weaken <- {}

Val == 0..(N - 1)
Live == Val \ Silent
T0 == 5000
Tpb == 1000
Cfg == [tpb |-> Tpb, maxTpb |-> 0, inc |-> 1, amevH |-> IF AmevOn THEN 0 ELSE -1, watch |-> FALSE]
LedgerD(i, d) == [height |-> IF d THEN H ELSE H - 1, tip |-> IF d THEN "T:tip2" ELSE "T:tip", tipTs |-> 4000, nvals |-> N, myIndex |-> i, vals |-> [k \in 1..N |-> k - 1]]

VARIABLES xs,      \* live validator -> node state
          pend,    \* set of <<payload, receiver>> not yet delivered
          now, cut, phase, fired, restarted, hist
vars == <<xs, pend, now, cut, phase, fired, restarted, hist>>

EnvOf(i) == [now |-> now, ledger |-> LedgerD(i, xs[i].started /\ xs[i].blockDone),   \* the application's ledger advances with the accepted block
             known |-> {}, pool |-> <<>>, bad |-> {}, failPre |-> 0, failBlock |-> 0, nilBlock |-> FALSE,
             rejects |-> {}, nonce |-> ToString(200 + 10 * i + (IF xs[i].started THEN xs[i].v ELSE 0)), rttOldNext |-> 0, rmOrder |-> <<>>]
Strip(o) == [o EXCEPT !.out = <<>>, !.env = [now |-> 0], !.fp = 0, !.fb = 0]
Bcasts(out) == {out[j].m : j \in {k \in 1..Len(out) : out[k].k = "Broadcast"}}
Reach(i) == IF cut # {} /\ i \in cut THEN {} ELSE Live \ ({i} \cup cut)     \* who hears validator i right now
Sent(i, out) == {<<m, j>> : m \in Bcasts(out), j \in Reach(i)}

\* the first event tells the script driver what kind of run this is; `done` = every live validator has accepted the block
Rec(i, call, arg, env, o) ==
  /\ xs' = [xs EXCEPT ![i] = Strip(o)]
  /\ hist' = [evs |-> IF Emit
                      THEN Append(hist.evs, [n |-> i, call |-> call, arg |-> arg, env |-> env,
                                             done |-> \A j \in Live : IF j = i THEN o.blockDone ELSE xs[j].blockDone]
                                            @@ (IF call = "Start" THEN [cfg |-> Cfg, c09 |-> TRUE, target |-> H, nsilent |-> Cardinality(Silent),
                                                                        kind |-> IF CutSets = {} THEN "silent" ELSE "partition"] ELSE <<>>))
                      ELSE <<>>]

Init == /\ xs = [i \in Live |-> Node!Blank(Cfg)] /\ pend = {} /\ now = T0 /\ cut = {} /\ phase = "init" /\ fired = 0 /\ restarted = {} /\ hist = [evs |-> <<>>]

StartNode(i) ==
  /\ ~xs[i].started /\ \A j \in Live : j < i => xs[j].started
  /\ \E o \in Node!Api(xs[i], "Start", [ts |-> 4000], EnvOf(i)) :
       /\ Rec(i, "Start", [ts |-> 4000], EnvOf(i), o)
       /\ pend' = pend \cup Sent(i, o.out)
  /\ UNCHANGED <<now, cut, phase, fired, restarted>>
AllStarted == \A i \in Live : xs[i].started

Deliver(m, i) ==
  /\ AllStarted /\ <<m, i>> \in pend
  /\ \E o \in Node!Api(xs[i], "OnReceive", m, EnvOf(i)) :
       /\ Rec(i, "OnReceive", m, EnvOf(i), o)
       /\ pend' = (pend \ {<<m, i>>}) \cup Sent(i, o.out)
  /\ phase' = (IF phase = "init" THEN "before" ELSE phase) /\ UNCHANGED <<now, cut, fired, restarted>>

Undecided == {i \in Live : ~xs[i].blockDone}
Due(i) == xs[i].timer.due
Fire(i) ==
  /\ AllStarted /\ pend = {} /\ i \in Undecided /\ xs[i].timer.k = "t"
  /\ ~(phase = "cut" /\ fired >= HealAfter)            \* the partition heals exactly then
  /\ \A j \in Undecided : xs[j].timer.k = "t" => Due(i) <= Due(j)
  /\ LET t == IF Due(i) > now THEN Due(i) ELSE now
         env == [EnvOf(i) EXCEPT !.now = t]
         arg == [h |-> xs[i].timer.h, v |-> xs[i].timer.v] IN
     /\ now' = t
     /\ \E o \in Node!Api(xs[i], "OnTimeout", arg, env) :
          /\ Rec(i, "OnTimeout", arg, env, o)
          /\ pend' = Sent(i, o.out)
  /\ fired' = (IF phase = "cut" THEN fired + 1 ELSE fired) /\ phase' = (IF phase = "init" THEN "before" ELSE phase) /\ UNCHANGED <<cut, restarted>>

Partition(S) == /\ AllStarted /\ (phase = "init" \/ (CutAnyTime /\ phase = "before")) /\ ~\A i \in Live : xs[i].blockDone
                /\ cut' = S /\ phase' = "cut" /\ fired' = 0
                /\ pend' = {p \in pend : p[2] \notin S /\ p[1].from \notin S}      \* in flight to or from the cut-off side: lost
                /\ UNCHANGED <<xs, now, restarted, hist>>
Heal == /\ phase = "cut" /\ pend = {} /\ fired >= HealAfter
        /\ cut' = {} /\ phase' = "healed" /\ UNCHANGED <<xs, pend, now, fired, restarted, hist>>

\* a validator of RestartSet loses its consensus state once (process restart), at a quiet moment - or, with RestartAnyTime, in the
\* middle of a round: it crashes while payloads are still on their way to it, and those are lost with it - unless it has
\* (pre)committed (a validator that forgets its own commit is a Byzantine fault, not a restart) or already finished the height
Restart(i) ==
  /\ AllStarted /\ i \in RestartSet \ restarted /\ (pend = {} \/ RestartAnyTime) /\ ~xs[i].blockDone /\ ~Node!Locked(xs[i])
  /\ \E o \in Node!Api(Node!Blank(Cfg), "Start", [ts |-> 4000], [EnvOf(i) EXCEPT !.nonce = ToString(300 + 10 * i)]) :
       /\ xs' = [xs EXCEPT ![i] = Strip(o)]
       /\ hist' = [evs |-> IF Emit THEN Append(hist.evs, [n |-> i, call |-> "Restart", arg |-> [ts |-> 4000], env |-> [EnvOf(i) EXCEPT !.nonce = ToString(300 + 10 * i)],
                                                       done |-> FALSE, cfg |-> Cfg]) ELSE <<>>]
       /\ pend' = {p \in pend : p[2] # i} \cup Sent(i, o.out)
  /\ restarted' = restarted \cup {i} /\ UNCHANGED <<now, cut, phase, fired>>

Next == (\E i \in Live : StartNode(i)) \/ (\E p \in pend : Deliver(p[1], p[2])) \/ (\E i \in Live : Fire(i)) \/ Heal \/ (\E S \in CutSets : Partition(S)) \/ (\E i \in Live : Restart(i))
Spec == Init /\ [][Next]_vars /\ WF_vars(Next)
View == <<xs, pend, now, cut, phase, fired, restarted>>
Bound == \A i \in Live : xs[i].started => xs[i].v <= MaxView

-----------------------------------------------------------------------------
Agreement == \A i, j \in Live : (xs[i].blockDone /\ xs[j].blockDone) => Node!CtxBlock(xs[i]) = Node!CtxBlock(xs[j])
ViewBound == \A i \in Live : xs[i].blockDone => xs[i].v <= Cardinality(Silent) + (IF phase \in {"init", "before"} /\ restarted = {} THEN 0 ELSE MaxView)
AllDecided == \A i \in Live : xs[i].blockDone
Termination == <>AllDecided
\* nobody is ever left without a timer (C10 in the closed system)
TimersArmed == \A i \in Live : (xs[i].started /\ ~xs[i].blockDone) => xs[i].timer.k = "t"

\* random simulation (large N): print the schedule of every run that reaches the end
EmitDone == (Emit /\ AllDecided) => PrintT(<<"BEHAVIOUR", ToJson(hist.evs)>>)
EmitCover == (Emit /\ (CoverMod = 1 \/ TLCGet("generated") % CoverMod = 0)) => PrintT(<<"COVER", ToJson(hist.evs)>>)
=============================================================================
