---------------------------- MODULE MC_NodeCover ----------------------------
(***************************************************************************)
(* State cover of MC_Node with PROBES.                                     *)
(*                                                                         *)
(* MC_Node skips calls that change nothing (they add no behaviour to the   *)
(* model).  But "this input changes nothing here" is exactly what a guard  *)
(* of the code promises (C05 quiescence, C11 input hygiene, C13 silence,   *)
(* stale timeouts, re-deliveries ...).  For every covered state this       *)
(* module also prints the set of calls of the menu that are no-ops there   *)
(* according to the specification; the harness inserts them into the       *)
(* schedules at that state (once per state).  On a correct implementation  *)
(* they change nothing and the schedule goes on as before; on one that     *)
(* lost a guard the real node reacts and the property formulas /           *)
(* conformance check see it.                                               *)
(***************************************************************************)
EXTENDS MC_Node

ProbeEnv(s) == [Env0 EXCEPT !.ledger = LedgerAt(IF s.started THEN s.h ELSE H)]
NoOps(s) == {c \in Calls(s) : c.call \notin {"Reset", "SetWatch"} /\ \A o \in Node!Api(s, c.call, c.arg, ProbeEnv(s)) : Strip(o) = s /\ o.out = <<>>}
RECURSIVE SetSeq(_)
SetSeq(S) == IF S = {} THEN <<>> ELSE LET e == CHOOSE y \in S : TRUE IN <<e>> \o SetSeq(S \ {e})
EmitCover2 == (Emit /\ (CoverMod = 1 \/ TLCGet("generated") % CoverMod = 0)) =>
                 PrintT(<<"COVER2", ToJson(hist.evs), ToJson(SetSeq(NoOps(x))), ToJson(ProbeEnv(x))>>)
=============================================================================
