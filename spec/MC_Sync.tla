------------------------------ MODULE MC_Sync ------------------------------
(***************************************************************************)
(* C08, design level, exhaustively over delivery orders.                   *)
(*                                                                         *)
(* ONE node of DbftNode.tla in a fault-free synchronous run of two heights *)
(* (H, then H + 1 after Reset).  Everybody else is honest, so the only     *)
(* payloads that exist are those of the view-0 round of each height: the   *)
(* primary's proposal, a response from every other backup, a pre-commit    *)
(* (anti-MEV) and a commit from everybody else - all naming the one        *)
(* proposal.  "Synchronous" = every payload is delivered before a timer    *)
(* expires, so the only timer that ever fires is the one that makes the    *)
(* node itself propose when it is the primary.  Everything else is free:   *)
(* any order, any duplication, payloads of H + 1 arriving while the node   *)
(* is still at H (future-message cache, replayed in any order by Reset).   *)
(* Because the environment may choose ANY order, the local obligations     *)
(* below, met by every node, give the global statement of C08:             *)
(*   NeverAsks  no ChangeView, no RecoveryRequest is ever broadcast,       *)
(*   View0      the node never leaves view 0,                              *)
(*   Decides    once every payload of a height has been delivered (before  *)
(*              or after the node entered the height) the node has handed  *)
(*              over the block,                                            *)
(*   TheBlock   and that block is the proposal's.                          *)
(* hist.evs carries the schedule (hidden by VIEW) for the state cover that *)
(* the harness executes on the real node.                                  *)
(***************************************************************************)
EXTENDS Integers, Sequences, FiniteSets, TLC, Json

CONSTANTS N, Me, H, AmevOn, TwoHeights, Emit, CoverMod

Node == INSTANCE DbftNode WITH DevEarlyCommitUnverified <- TRUE, Weaken <- {}

Val == 0..(N - 1)
Others == Val \ {Me}
Now == 5000
Cfg == [tpb |-> 1000, maxTpb |-> 0, inc |-> 1, amevH |-> IF AmevOn THEN 0 ELSE -1, watch |-> FALSE]
Hs == IF TwoHeights THEN {H, H + 1} ELSE {H}
Tip(g) == IF g = H THEN "T:tip" ELSE IF g = H + 1 THEN "T:tip2" ELSE "T:tip3"
TipTs(g) == 4000 + (g - H)
LedgerAt(g) == [height |-> g - 1, tip |-> Tip(g), tipTs |-> TipTs(g), nvals |-> N, myIndex |-> Me, vals |-> [i \in 1..N |-> IF i - 1 = Me THEN 500 ELSE i - 1]]
Prim(g) == g % N
OwnNonce == "201"
\* the proposal of height g: the environment's when somebody else is primary, the node's own otherwise (timestamp as Fill computes it)
PropHash(g) == IF Prim(g) = Me
               THEN [h |-> g, v |-> 0, from |-> Me, ts |-> Now, nonce |-> OwnNonce, txs |-> <<>>]
               ELSE [h |-> g, v |-> 0, from |-> Prim(g), ts |-> TipTs(g) + 1, nonce |-> "101", txs |-> <<>>]
BlockOf(ph) == [h |-> ph.h, prev |-> Tip(ph.h), ts |-> ph.ts, nonce |-> ph.nonce, txs |-> ph.txs]

\* payload ids of the round of height g and the payloads themselves
Ids(g) == (IF Prim(g) = Me THEN {} ELSE {<<g, "req", Prim(g)>>})
          \cup {<<g, "resp", i>> : i \in Others \ {Prim(g)}}
          \cup (IF AmevOn THEN {<<g, "pc", i>> : i \in Others} ELSE {})
          \cup {<<g, "cm", i>> : i \in Others}
Msg(id) ==
  LET g == id[1]  ph == PropHash(g) IN
    CASE id[2] = "req"  -> [t |-> "PrepareRequest", h |-> g, v |-> 0, from |-> id[3], ts |-> ph.ts, nonce |-> ph.nonce, txs |-> ph.txs]
      [] id[2] = "resp" -> [t |-> "PrepareResponse", h |-> g, v |-> 0, from |-> id[3], ph |-> ph]
      [] id[2] = "pc"   -> [t |-> "PreCommit", h |-> g, v |-> 0, from |-> id[3], s |-> id[3], b |-> BlockOf(ph)]
      [] id[2] = "cm"   -> [t |-> "Commit", h |-> g, v |-> 0, from |-> id[3], s |-> id[3], b |-> BlockOf(ph)]

VARIABLES x, dl, hist
vars == <<x, dl, hist>>

\* the application's ledger advances when the node hands over a block
EnvOf(s) == [now |-> Now, ledger |-> LedgerAt(IF s.started /\ s.blockDone THEN s.h + 1 ELSE IF s.started THEN s.h ELSE H),
             known |-> {}, pool |-> <<>>, bad |-> {}, failPre |-> 0, failBlock |-> 0, nilBlock |-> FALSE,
             rejects |-> {}, nonce |-> OwnNonce, rttOldNext |-> 0, rmOrder |-> <<>>]
Strip(o) == [o EXCEPT !.out = <<>>, !.env = [now |-> 0], !.fp = 0, !.fb = 0]
Bcasts(out) == {out[j].m : j \in {k \in 1..Len(out) : out[k].k = "Broadcast"}}
Asks(out) == \E m \in Bcasts(out) : m.t \in {"ChangeView", "RecoveryRequest"}

\* payloads exist only once their proposal does: those answering the node's own proposal need it to have been broadcast
Exists(id) == Prim(id[1]) # Me \/ (x.started /\ x.h = id[1] /\ x.prep[Me + 1].k = "req") \/ (x.started /\ x.h > id[1])

Target == IF TwoHeights THEN H + 1 ELSE H
\* `done` tells the script driver that the run is complete (it then writes the run-end line the C08 formulas look at)
Record(o, ev) ==
  /\ x' = Strip(o)
  /\ hist' = [asked |-> hist.asked \/ Asks(o.out),
              evs |-> IF Emit THEN Append(hist.evs, ev @@ [done |-> o.h = Target /\ o.blockDone]) ELSE <<>>]

Init == \E o \in Node!Api(Node!Blank(Cfg), "Start", [ts |-> TipTs(H)], EnvOf(Node!Blank(Cfg))) :
          /\ x = Strip(o) /\ dl = {}
          /\ hist = [asked |-> Asks(o.out),
                     evs |-> IF Emit THEN <<[call |-> "Start", arg |-> [ts |-> TipTs(H)], env |-> EnvOf(Node!Blank(Cfg)), cfg |-> Cfg,
                                            sync |-> TRUE, target |-> Target, done |-> FALSE]>> ELSE <<>>]

Deliver(id) ==
  /\ Exists(id)
  /\ LET env == EnvOf(x) IN
     \E o \in Node!Api(x, "OnReceive", Msg(id), env) :
       /\ Record(o, [call |-> "OnReceive", arg |-> Msg(id), env |-> env])
       /\ dl' = dl \cup {id}

\* the only expiry of a synchronous run: the primary's own proposal timer
Propose ==
  /\ x.me = x.primary /\ x.prep[Me + 1].k = "none" /\ ~x.blockDone /\ x.timer.k = "t"
  /\ LET env == EnvOf(x)  arg == [h |-> x.timer.h, v |-> x.timer.v] IN
     \E o \in Node!Api(x, "OnTimeout", arg, env) : Record(o, [call |-> "OnTimeout", arg |-> arg, env |-> env]) /\ UNCHANGED dl

Reset ==
  /\ TwoHeights /\ x.blockDone /\ x.h = H
  /\ LET env == EnvOf(x)  arg == [ts |-> TipTs(H + 1)] IN
     \E o \in Node!Api(x, "Reset", arg, env) : Record(o, [call |-> "Reset", arg |-> arg, env |-> env]) /\ UNCHANGED dl

Next == (\E g \in Hs : \E id \in Ids(g) : Deliver(id)) \/ Propose \/ Reset
Spec == Init /\ [][Next]_vars
View == <<x, dl, hist.asked>>

-----------------------------------------------------------------------------
NeverAsks == ~hist.asked
View0 == x.v = 0
Decides == \A g \in Hs : (x.h = g /\ Ids(g) \subseteq dl) => x.blockDone
TheBlock == x.blockDone => Node!CtxBlock(x) = BlockOf(PropHash(x.h))
\* a payload that has been delivered once is never needed again (duplication is harmless, nothing is lost by arriving early)
Done == x.h = Target /\ x.blockDone

EmitCover == (Emit /\ (CoverMod = 1 \/ TLCGet("generated") % CoverMod = 0)) => PrintT(<<"COVER", ToJson(hist.evs)>>)
=============================================================================
