----------------------------- MODULE DbftTrace -----------------------------
(***************************************************************************)
(* TLog validation of real dbft runs.                                     *)
(*                                                                         *)
(* The harness (/verif/harness) logs one ndjson line per public API call   *)
(* of one real dbft.DBFT instance: the call, its argument, the projection  *)
(* of the node state on return (`post`), the ordered list of callbacks the *)
(* library made during the call (`cb`; Broadcast / ProcessBlock /          *)
(* ProcessPreBlock / StopTxFlow callbacks carry `at`, a projection taken   *)
(* inside the callback), the application ledger as the library saw it, and *)
(* whether the call panicked.  Runs are separated by "RunStart" lines.     *)
(*                                                                         *)
(* This specification replays such a file: the variables are bound from    *)
(* the log (st[n] = last logged state of node n, plus bounded history      *)
(* variables), and on every step the formulas of properties C01..C13 are   *)
(* evaluated on the logged real behaviour.  A formula that is false is     *)
(* REPORTED (printed and counted), it does not stop the run, so that the   *)
(* rest of the trace is still checked and known findings can be told from  *)
(* new violations.  Acceptance (the whole file was consumed) is checked by *)
(* the POSTCONDITION.                                                      *)
(***************************************************************************)
EXTENDS Integers, Sequences, FiniteSets, TLC, TLCExt, Json, IOUtils

TLog == ndJsonDeserialize(IOEnv.VERIF_TRACE)

VARIABLES l,        \* index of the next line to consume
          run,      \* the current RunStart line
          st,       \* node id -> last logged projected state
          acc,      \* node id -> sequence of [h, b, kf] : successful ProcessBlock callbacks of this incarnation
          sent,     \* node id -> set of own payloads (PRec) broadcast at the node's current height, incl. own ones embedded in own recovery messages
          lock,     \* node id -> [k |-> "none"] or the first Commit / PreCommit broadcast at the current height
          maxv,     \* node id -> highest view carried by an own top-level payload at the current height
          preOk,    \* node id -> number of successful ProcessPreBlock callbacks at the current height
          txq,      \* node id -> [key, asked, given] : transactions requested / supplied for the stored proposal
          nviol,    \* number of formula failures reported so far
          cfgs,     \* node id -> static configuration (from the Start line)
          ndiv,     \* [checked, diverged, skipped] conformance counters
          lastProp, \* the latest proposal broadcast in this run: [k, now, h] (C16)
          initTs,   \* node id -> previous block's timestamp given to the last Start / Reset (C15)
          echo,     \* node id -> payloads under the node's own identity that came back to it at its current height (said by an earlier incarnation of a restarted validator)
          recPrim   \* heights at which some node became primary of a new view while processing a recovery message (known finding KF-2)

vars == <<l, run, st, acc, sent, lock, maxv, preOk, txq, nviol, cfgs, ndiv, lastProp, recPrim, initTs, echo>>

\* TRUE: also check every logged call against the transition relation of DbftNode.tla
CheckConformance == "VERIF_CONFORM" \in DOMAIN IOEnv /\ IOEnv.VERIF_CONFORM = "1"

-----------------------------------------------------------------------------
\* Vocabulary

F(n) == (n - 1) \div 3
M(n) == n - F(n)
None == [k |-> "none"]
Range(s) == {s[i] : i \in 1..Len(s)}
Idx(s) == 1..s.n
NotStarted == [started |-> FALSE]
NoKey == [h |-> -1]

IsRunStart(x) == x.call = "RunStart"
IsRunEnd(x) == x.call = "RunEnd"
IsPair(x) == x.call = "Pair"

Cbs(e, k) == {j \in 1..Len(e.cb) : e.cb[j].k = k}
Bcs(e) == Cbs(e, "Broadcast")
Bc(e, t) == {j \in Bcs(e) : e.cb[j].m.t = t}
OkCb(e, k) == {j \in Cbs(e, k) : e.cb[j].ok}

ReqStored(s) == s.prep[s.primary + 1].k = "req"
ReqPh(s) == s.prep[s.primary + 1].ph

\* own consensus payloads made visible by a Broadcast callback: the payload
\* itself and, for a recovery message, the embedded payloads under own index
Embedded(m) == IF m.t = "RecoveryMessage" THEN Range(m.prep) \cup Range(m.cvs) \cup Range(m.pcs) \cup Range(m.cms) ELSE {}
OwnIn(m) == {m} \cup {p \in Embedded(m) : p.from = m.from /\ p.h = m.h}
OwnAt(e, j) == OwnIn(e.cb[j].m)

Body(p) == CASE p.t = "PrepareRequest" -> <<p.ts, p.nonce, p.txs>>
             [] p.t = "PrepareResponse" -> <<p.ph>>
             [] p.t \in {"Commit", "PreCommit"} -> <<p.v, p.s, p.b>>
             [] OTHER -> <<>>

\* effect callbacks of a call (what the conformance check and the clock-shift comparison look at)
EffectKinds == {"Broadcast", "TimerReset", "TimerExtend", "ProcessBlock", "ProcessPreBlock", "RequestTx", "SubscribeForTxs", "StopTxFlow"}
EffectOf(c) == CASE c.k = "Broadcast" -> [k |-> c.k, m |-> c.m]
                 [] c.k = "TimerReset" -> [k |-> c.k, h |-> c.h, v |-> c.v, d |-> c.d]
                 [] c.k = "TimerExtend" -> [k |-> c.k, d |-> c.d]
                 [] c.k \in {"ProcessBlock", "ProcessPreBlock"} -> [k |-> c.k, block |-> c.block, ok |-> c.ok]
                 [] c.k = "RequestTx" -> [k |-> c.k, hashes |-> c.hashes]
                 [] OTHER -> [k |-> c.k]
EffectsSeq(e) == LET sel == SelectSeq(e.cb, LAMBDA c : c.k \in EffectKinds) IN [i \in 1..Len(sel) |-> EffectOf(sel[i])]

-----------------------------------------------------------------------------
\* C01 Agreement (evaluated when node e.n accepts block b at height b.h)

\* signature of known finding KF-1: the certificate is short of M valid
\* commits and the shortfall is made of commits stored before the proposal
NValid(at) == Cardinality({i \in Idx(at) : at.cm[i].k = "cm" /\ at.cm[i].v = at.v /\ at.cm[i].valid})
NEarlyBad(at) == Cardinality({i \in Idx(at) : at.cm[i].k = "cm" /\ at.cm[i].v = at.v /\ ~at.cm[i].valid /\ at.cm[i].early})
KF1(at) == ~at.amev /\ NValid(at) < M(at.n) /\ NValid(at) + NEarlyBad(at) >= M(at.n)
\* the PROPOSER of a view can hold unverified commits only if the application's NewBlockFromContext returned no block at some
\* moment of that view (its own path validates what it received early after storing its request - unless no header can be built)

Honest(n) == n \notin Range(run.faulty)
Forks(e, j) == {<<m, k>> \in {<<m, k>> \in (DOMAIN acc) \X (1..8) : k <= Len(acc[m])} :
                  /\ m # e.n /\ Honest(m) /\ Honest(e.n)
                  /\ acc[m][k].h = e.cb[j].block.h /\ acc[m][k].b # e.cb[j].block}

-----------------------------------------------------------------------------
\* C02 Decision certificate

CertCount(e, j) == NValid(e.cb[j].at) >= M(e.cb[j].at.n)
CertTip(e, j) == e.cb[j].block.h = e.ledger.height + 1 /\ e.cb[j].block.prev = e.ledger.tip
CertProposal(e, j) ==
  LET at == e.cb[j].at  b == e.cb[j].block IN
    /\ ReqStored(at)
    /\ ReqPh(at).from = at.primary /\ ReqPh(at).v = at.v /\ ReqPh(at).h = at.h
    /\ b.txs = ReqPh(at).txs /\ b.ts = ReqPh(at).ts /\ b.nonce = ReqPh(at).nonce
\* ... and the transactions the library put into the block are the proposal's, in proposed order, none missing
CertBody(e, j) == "body" \in DOMAIN e.cb[j] => e.cb[j].body = ReqPh(e.cb[j].at).txs
NValidPc(at) == Cardinality({i \in Idx(at) : at.pc[i].k = "pc" /\ at.pc[i].v = at.v /\ at.pc[i].valid})
PreCertCount(e, j) == NValidPc(e.cb[j].at) >= M(e.cb[j].at.n)

-----------------------------------------------------------------------------
\* C03 Non-equivocation and commit lock

Conflict(a, b) ==
  /\ a.t = b.t /\ a.h = b.h
  /\ \/ a.t \in {"PrepareRequest", "PrepareResponse"} /\ a.v = b.v /\ Body(a) # Body(b)
     \/ a.t \in {"Commit", "PreCommit"} /\ Body(a) # Body(b)

\* payloads of the current height broadcast up to and including callback j of this call
SentBase(e) == IF e.fresh THEN {} ELSE sent[e.n]
EchoBase(e) == (IF e.fresh THEN {} ELSE echo[e.n])
               \cup (IF e.call = "OnReceive" /\ e.post.started /\ e.post.me >= 0     \* ... or are coming back in this very call
                     THEN {p \in {e.arg} \cup Embedded(e.arg) : p.from = e.post.me /\ p.h = e.post.h} ELSE {})
SentBefore(e, j) == SentBase(e) \cup UNION {OwnAt(e, k) : k \in {x \in Bcs(e) : x < j}}
\* KF-1 is the onPrepareRequest path: a node that broadcast the view's proposal itself went through sendPrepareRequest, which
\* validates what it had received early AFTER storing its request - the known finding does not cover it
OwnProposalFor(e, j) == \E p \in SentBefore(e, j) : p.t = "PrepareRequest" /\ p.h = e.cb[j].at.h /\ p.v = e.cb[j].at.v /\ p.from = e.cb[j].at.me
KF1At(e, j) == KF1(e.cb[j].at) /\ (~OwnProposalFor(e, j) \/ e.cb[j].at.nilSeen)
NonEquivocation(e, j) ==
  \A a \in {p \in OwnAt(e, j) : p.h = e.cb[j].at.h} :
     \A b \in {q \in SentBefore(e, j) : q.h = a.h} : ~Conflict(a, b)

\* the lock in force before callback j
LockedBefore(e, j) ==
  \/ lock[e.n].k # "none" /\ e.call \notin {"Start", "Reset"}
  \/ \E k \in Bc(e, "Commit") \cup Bc(e, "PreCommit") : k < j /\ e.cb[k].m.h = e.cb[j].at.h
LockViewBefore(e, j) ==
  IF lock[e.n].k # "none" /\ e.call \notin {"Start", "Reset"} THEN lock[e.n].v
  ELSE LET ks == {k \in Bc(e, "Commit") \cup Bc(e, "PreCommit") : k < j /\ e.cb[k].m.h = e.cb[j].at.h}
       IN e.cb[CHOOSE k \in ks : \A x \in ks : k <= x].at.v
\* at every snapshot-bearing callback: no ChangeView broadcast and no other view while locked
CommitLockCb(e, j) ==
  (LockedBefore(e, j) /\ e.cb[j].at.started /\ ~e.cb[j].at.watch) =>      \* a validator demoted to watch-only is an observer from then on
     /\ ~(e.cb[j].k = "Broadcast" /\ e.cb[j].m.t = "ChangeView")
     /\ e.cb[j].at.v = LockViewBefore(e, j)
SnapCbs(e) == {j \in 1..Len(e.cb) : e.cb[j].k \in {"Broadcast", "ProcessBlock", "ProcessPreBlock", "StopTxFlow"}}
CommitLockPost(e, pre) ==
  (lock[e.n].k # "none" /\ e.call \notin {"Start", "Reset"} /\ ~e.post.watch) => e.post.v = pre.v /\ e.post.h = pre.h
ViewMonotone(e, j) ==
  LET m == e.cb[j].m IN
    (m.h = e.cb[j].at.h /\ e.call \notin {"Start", "Reset"}) => m.v >= maxv[e.n]

-----------------------------------------------------------------------------
\* C04 Quorum-gated progress

Matching(at) == {i \in Idx(at) : at.prep[i].k \in {"req", "resp"} /\ at.prep[i].v = at.v /\ at.prep[i].ph = ReqPh(at)}
HoldsAll(at) == Range(ReqPh(at).txs) \subseteq Range(at.have)
ResponseEvidence(e, j) ==
  LET at == e.cb[j].at IN
    /\ ReqStored(at) /\ ReqPh(at).from = at.primary /\ ReqPh(at).v = at.v /\ ReqPh(at).h = at.h
    /\ e.cb[j].m.ph = ReqPh(at) /\ e.cb[j].m.v = at.v /\ e.cb[j].m.h = at.h
    /\ HoldsAll(at) /\ at.verifiedOk
FirstLock(e, j) == ~LockedBefore(e, j)
CommitEvidence(e, j) ==
  LET at == e.cb[j].at IN
    /\ ReqStored(at) /\ ReqPh(at).from = at.primary /\ HoldsAll(at)
    /\ Cardinality(Matching(at)) >= M(at.n)
\* state form: a node in view v > 0 still holds (in LastChangeViewPayloads) the M requests for v or above it entered on
ViewEvidence(s) == (s.started /\ s.v > 0) =>
     Cardinality({i \in Idx(s) : s.lastcv[i].k = "cv" /\ s.lastcv[i].nv >= s.v}) >= M(s.n)

-----------------------------------------------------------------------------
\* C05 One decision per height, quiescence, clean re-initialisation

OneDecision(e, j) == \A k \in 1..Len(acc[e.n]) : acc[e.n][k].h # e.cb[j].block.h
SameTables(a, b) == /\ a.h = b.h /\ a.v = b.v /\ a.prep = b.prep /\ a.cm = b.cm /\ a.pc = b.pc /\ a.cv = b.cv
                    /\ a.lastcv = b.lastcv /\ a.have = b.have /\ a.missing = b.missing /\ a.txs = b.txs
                    /\ a.blockDone = b.blockDone /\ a.preDone = b.preDone
Quiescent(e, pre) ==
  (pre.started /\ pre.blockDone /\ e.call \notin {"Start", "Reset"}) =>
     /\ Cbs(e, "ProcessBlock") = {} /\ Cbs(e, "ProcessPreBlock") = {} /\ Cbs(e, "RequestTx") = {}
     /\ Cbs(e, "Sign") = {} /\ Cbs(e, "SetData") = {}
     /\ \A j \in Bcs(e) : e.cb[j].m.t = "RecoveryMessage" /\ e.call = "OnReceive" /\ e.arg.t = "RecoveryRequest"
     /\ SameTables(pre, e.post)
\* nothing is broadcast after the block was handed over inside the same call
QuietAfterBlock(e) == \A j \in OkCb(e, "ProcessBlock") : \A k \in Bcs(e) : k < j
PreInbox(pre, h) == IF pre.started THEN {x \in Range(pre.cache) : x.h = h} ELSE {}
FromCache(slot, i, kind, inboxes, me) ==
  \/ slot.k = "none"
  \/ i = me + 1
  \/ \E x \in inboxes :
       CASE kind = "prep" -> \E p \in Range(x.prepare) : p.from = i - 1 /\ p.v = slot.v
         [] kind = "cm"   -> \E p \in Range(x.commit) : p.from = i - 1 /\ p.v = slot.v /\ p.s = slot.s /\ p.b = slot.b
         [] kind = "pc"   -> \E p \in Range(x.preCommit) : p.from = i - 1 /\ p.v = slot.v /\ p.s = slot.s /\ p.b = slot.b
         [] kind = "cv"   -> \E p \in Range(x.chViews) : p.from = i - 1 /\ p.nv = slot.nv
\* payloads cached for a height the node has not reached yet stay cached ("payloads received early for the new height are taken
\* into account" needs them to survive until then); only Start begins with an empty cache
CacheKeeps(e, pre) ==
  (pre.started /\ e.post.started /\ e.call # "Start") =>
     \A x \in Range(pre.cache) : x.h > e.post.h =>
        \E y \in Range(e.post.cache) : /\ y.h = x.h /\ Len(y.prepare) >= Len(x.prepare) /\ Len(y.chViews) >= Len(x.chViews)
                                        /\ Len(y.preCommit) >= Len(x.preCommit) /\ Len(y.commit) >= Len(x.commit)
\* ... and a payload for the next height is taken in whenever it arrives - also between the hand-over of the block and Reset
EarlyKept(e, pre) ==
  (pre.started /\ e.post.started /\ e.call = "OnReceive" /\ e.post.h = pre.h /\ e.arg.h = pre.h + 1 /\ e.arg.from < pre.n
     /\ e.arg.t \in {"PrepareRequest", "PrepareResponse", "ChangeView", "Commit", "PreCommit"})
  => \E y \in Range(e.post.cache) :
        /\ y.h = e.arg.h
        /\ e.arg \in (CASE e.arg.t \in {"PrepareRequest", "PrepareResponse"} -> Range(y.prepare)
                        [] e.arg.t = "ChangeView" -> Range(y.chViews)
                        [] e.arg.t = "PreCommit" -> Range(y.preCommit)
                        [] OTHER -> Range(y.commit))
\* ... and are used: a view-0 proposal of the new height's primary that was waiting in the cache is stored by Reset
EarlyUsedT(e, pre) ==
  (pre.started /\ e.post.started /\ e.call = "Reset" /\ e.post.v = 0) =>
     \A x \in PreInbox(pre, e.post.h) : \A p \in Range(x.prepare) :
        (p.t = "PrepareRequest" /\ p.v = 0 /\ p.from = e.post.primary /\ p.from # e.post.me
           /\ ~\E j \in Cbs(e, "VerifyPrepareRequest") : ~e.cb[j].ok)
        => e.post.prep[p.from + 1].k = "req"
CleanReset(e, pre) ==
  LET s == e.post  inb == PreInbox(pre, e.post.h) IN
    /\ s.h = e.ledger.height + 1 /\ s.n = e.ledger.nvals /\ s.vals = e.ledger.vals /\ s.me = e.ledger.myIndex
    /\ s.prev = e.ledger.tip /\ s.lbTs = e.arg.ts
    /\ ~s.sub                    \* no transaction subscription of an earlier height is carried over
    /\ s.primary = (s.h - s.v) % s.n
    /\ Len(s.prep) = s.n /\ Len(s.cm) = s.n /\ Len(s.pc) = s.n /\ Len(s.cv) = s.n /\ Len(s.lastcv) = s.n /\ Len(s.seen) = s.n
    /\ \A x \in Range(s.cache) : x.h > s.h \/ (x.h = s.h /\ \A p \in Range(x.prepare) \cup Range(x.chViews) \cup Range(x.preCommit) \cup Range(x.commit) : p.v > 0)
    /\ \A i \in Idx(s) : /\ FromCache(s.prep[i], i, "prep", inb, s.me) /\ FromCache(s.cm[i], i, "cm", inb, s.me)
                         /\ FromCache(s.pc[i], i, "pc", inb, s.me)
                         /\ FromCache(s.cv[i], i, "cv", inb, s.me) /\ FromCache(s.lastcv[i], i, "cv", inb, s.me)
                         /\ (s.seen[i].k = "hv" => s.seen[i].h = s.h)
    /\ s.v = 0 \/ ViewEvidence(s)

-----------------------------------------------------------------------------
\* C07 Anti-MEV phase discipline

PhaseOrder(e, j) ==
  LET at == e.cb[j].at IN
    at.amev =>
      /\ at.me >= 0 /\ at.pc[at.me + 1].k = "pc"
      /\ \E p \in SentBefore(e, j) \cup EchoBase(e) : p.t = "PreCommit" /\ p.h = at.h
      /\ Cardinality({i \in Idx(at) : at.pc[i].k = "pc" /\ at.pc[i].v = at.v}) >= M(at.n)
      /\ at.preDone
PreBlockOnce(e, j) == preOk[e.n] = 0 \/ e.call \in {"Start", "Reset"}
\* the final block is built / signed only after the pre-block was processed
BlockAfterPre(e, pre) ==
  (e.post.started /\ e.post.amev /\ e.call \notin {"Start", "Reset"}) =>
     \A j \in Cbs(e, "NewBlockFromContext") \cup Cbs(e, "Sign") :
        pre.preDone \/ \E k \in OkCb(e, "ProcessPreBlock") : k < j
SameButSeen(a, b) == [a EXCEPT !.seen = b.seen, !.cache = b.cache] = b
AmevOff(e, pre) ==
  (pre.started /\ ~pre.amev /\ e.call \notin {"Start", "Reset"}) =>
     /\ Bc(e, "PreCommit") = {} /\ Cbs(e, "ProcessPreBlock") = {} /\ Cbs(e, "SetData") = {}
     /\ (e.call = "OnReceive" /\ e.arg.t = "PreCommit" /\ e.arg.h = pre.h /\ e.arg.v <= pre.v)
           => (SameButSeen(pre, e.post) /\ pre.cache = e.post.cache /\ e.cb = <<>>)

-----------------------------------------------------------------------------
\* C10 No lost wake-up

TimerArmed(e) ==
  LET s == e.post IN
    (s.started /\ ~s.watch /\ ~s.blockDone) =>
       s.timer.k = "t" /\ s.timer.h = s.h /\ s.timer.v = s.v /\ s.timer.d >= 0 /\ s.timer.ext >= 0
TimerArgs(e) == /\ \A j \in Cbs(e, "TimerReset") : e.cb[j].d >= 0
                /\ \A j \in Cbs(e, "TimerExtend") : e.cb[j].d >= 0
TimeoutRearms(e, pre) ==
  (e.call = "OnTimeout" /\ pre.started /\ ~pre.watch /\ ~pre.blockDone /\ e.arg.h = pre.h /\ e.arg.v = pre.v) =>
     Cbs(e, "TimerReset") # {} \/ OkCb(e, "ProcessBlock") # {}

-----------------------------------------------------------------------------
\* C11 Input hygiene

Stored(pre, a) ==
  /\ a.h = pre.h /\ a.from < pre.n
  /\ CASE a.t = "PrepareRequest"  -> pre.prep[a.from + 1].k = "req" /\ pre.prep[a.from + 1].v = a.v
                                     /\ pre.prep[a.from + 1].ph = [h |-> a.h, v |-> a.v, from |-> a.from, ts |-> a.ts, nonce |-> a.nonce, txs |-> a.txs]
       [] a.t = "PrepareResponse" -> pre.prep[a.from + 1].k = "resp" /\ pre.prep[a.from + 1].v = a.v /\ pre.prep[a.from + 1].ph = a.ph
       [] a.t = "Commit"          -> pre.cm[a.from + 1].k = "cm" /\ pre.cm[a.from + 1].v = a.v /\ pre.cm[a.from + 1].s = a.s /\ pre.cm[a.from + 1].b = a.b
       [] a.t = "PreCommit"       -> pre.amev /\ pre.pc[a.from + 1].k = "pc" /\ pre.pc[a.from + 1].v = a.v /\ pre.pc[a.from + 1].s = a.s /\ pre.pc[a.from + 1].b = a.b
       [] OTHER -> FALSE
Inadmissible(e, pre) ==
  /\ pre.started
  /\ \/ e.call = "OnReceive" /\ (e.arg.from >= pre.n \/ e.arg.h < pre.h)
     \/ e.call = "OnReceive" /\ e.arg.h = pre.h /\ e.arg.from < pre.n /\
          \/ e.arg.t = "PrepareRequest" /\ e.arg.v = pre.v /\ e.arg.from # pre.primary
          \/ e.arg.t \in {"PrepareRequest", "PrepareResponse"} /\ e.arg.v < pre.v
          \/ e.arg.t = "PrepareResponse" /\ e.arg.v = pre.v /\ e.arg.from = pre.primary
          \/ e.arg.t = "PreCommit" /\ ~pre.amev /\ e.arg.v <= pre.v
     \/ e.call = "OnTransaction" /\ (e.arg.tx \notin Range(pre.missing) \/ e.arg.tx \notin Range(pre.txs) \/ ~ReqStored(pre))
     \/ e.call = "OnTimeout" /\ (e.arg.h # pre.h \/ e.arg.v # pre.v)
Effects(e) == Bcs(e) \cup Cbs(e, "TimerReset") \cup Cbs(e, "TimerExtend") \cup Cbs(e, "ProcessBlock")
                \cup Cbs(e, "ProcessPreBlock") \cup Cbs(e, "RequestTx") \cup Cbs(e, "Sign") \cup Cbs(e, "SetData")
NoEffect(e, pre) == Inadmissible(e, pre) => SameButSeen(pre, e.post) /\ pre.cache = e.post.cache /\ Effects(e) = {}
Redelivery(e, pre) ==
  (pre.started /\ e.call = "OnReceive" /\ e.arg.v = pre.v /\ Stored(pre, e.arg)) =>
     /\ SameButSeen(pre, e.post) /\ pre.cache = e.post.cache
     /\ Effects(e) \subseteq Bc(e, "RecoveryMessage")
NoPanic(e) == e.panic = ""
\* only transactions of the stored proposal are ever held or asked for
HeldTxsBelong(s) == s.started => Range(s.have) \subseteq Range(s.txs)

-----------------------------------------------------------------------------
\* C12 A backup given every requested transaction answers

KeyOf(s) == IF s.started /\ ReqStored(s) THEN [h |-> s.h, v |-> s.v, ph |-> ReqPh(s)] ELSE NoKey
ReqTxs(e) == UNION {Range(e.cb[j].hashes) : j \in Cbs(e, "RequestTx")}
NextTxq(e, pre) ==
  LET k == KeyOf(e.post)  q == txq[e.n] IN
    IF k = NoKey THEN [key |-> NoKey, asked |-> {}, given |-> {}]
    ELSE IF k = q.key /\ k = KeyOf(pre)
         THEN [key |-> k, asked |-> q.asked \cup ReqTxs(e),
               given |-> q.given \cup (IF e.call = "OnTransaction" THEN {e.arg.tx} ELSE {})]
         ELSE [key |-> k, asked |-> ReqTxs(e) \cap Range(k.ph.txs), given |-> {}]
Answers(e, pre) ==
  LET s == e.post  q == NextTxq(e, pre)
      mine == SentBase(e) \cup EchoBase(e) \cup UNION {OwnAt(e, j) : j \in Bcs(e)} IN
    ( /\ e.call = "OnTransaction" /\ s.started /\ ~s.watch /\ s.me >= 0 /\ s.me # s.primary /\ pre.started /\ ~pre.blockDone      \* (also when the block is accepted inside this very call: the answer comes first)
      /\ q.key # NoKey /\ q.asked # {} /\ q.asked \subseteq q.given
      /\ ~\E c \in mine : c.t = "ChangeView" /\ c.h = s.h /\ c.v = s.v )
    => \E m \in mine : m.t = "PrepareResponse" /\ m.h = s.h /\ m.v = s.v

-----------------------------------------------------------------------------
\* C13 Watch-only nodes are silent

Silent(e, pre) ==
  LET w == IF e.call \in {"Start", "Reset"} THEN e.post.started /\ e.post.watch ELSE pre.started /\ pre.watch IN
    w => Bcs(e) = {} /\ Cbs(e, "Sign") = {} /\ Cbs(e, "SetData") = {}
SilentAt(e, j) == ~e.cb[j].at.watch

-----------------------------------------------------------------------------
\* C08 Fault-free synchronous runs decide every height in view 0, in any order
\* (run.sync: all validators honest, every payload delivered before the next timer expiry)

SyncRun == "sync" \in DOMAIN run /\ run.sync
NoViewChangeAsked(e) == SyncRun => Bc(e, "ChangeView") = {} /\ Bc(e, "RecoveryRequest") = {}
DecidedInView0(e, j) == SyncRun => e.cb[j].at.v = 0
SameBlockInSync(e, j) == SyncRun => Forks(e, j) = {}
HeightOf(x, n) == LET p == CHOOSE q \in Range(x.heights) : q[1] = n IN p[2]
AllAtTarget(x) == \A n \in Range(x.live) : HeightOf(x, n) >= x.target
DecidedThemselves(x) == \A n \in Range(x.live) :
   \A h \in (run.params.h0 + 1)..x.target : \E k \in 1..Len(acc[n]) : acc[n][k].h = h

\* C09 Recovery liveness (driver "faults": silent validators, healed partitions, restarts; bounded wait)
FaultRun == run.driver = "faults" \/ (run.driver = "script" /\ "c09" \in DOMAIN run.params)
SilentViewBound(e, j) == (FaultRun /\ run.params.kind \in {"silent", "watch"}) => e.cb[j].at.v <= run.params.nsilent

\* C16 Dynamic block time
DynRun == SyncRun /\ run.params.maxTpb > 0
\* (the property speaks about networks with the extension configured; the sync driver's other runs may delay one validator's
\* traffic by more than delayMax)
MinGap(e, j) ==
  (DynRun /\ lastProp.k = "p" /\ e.cb[j].m.h = lastProp.h + 1 /\ e.cb[j].m.v = 0) =>
     e.now - lastProp.now >= run.params.tpb - run.params.delayMax
EmptyOnlyAfterMax(e, j) ==
  (DynRun /\ lastProp.k = "p" /\ e.cb[j].m.h = lastProp.h + 1 /\ e.cb[j].m.v = 0 /\ e.cb[j].m.txs = <<>>) =>
     e.now - lastProp.now >= run.params.maxTpb - run.params.delayMax
\* a new-transaction notification during the extended wait makes the primary propose inside the same call
PromptProposal(e, pre) ==
  (e.call = "OnNewTransaction" /\ pre.started /\ pre.sub /\ ~pre.watch /\ ~pre.blockDone /\ pre.me = pre.primary /\ ~ReqStored(pre)
     /\ pre.timer.k = "t" /\ pre.timer.h = pre.h /\ pre.timer.v = pre.v)
  => Bc(e, "PrepareRequest") # {}
SubscribeOnlyIfConfigured(e, cfg) == Cbs(e, "SubscribeForTxs") # {} => cfg.maxTpb > 0

\* C14 Time enters only through the injected timer
TruncDiv(a, b) == IF a >= 0 THEN a \div b ELSE -((-a) \div b)
\* the round-trip average moves only by a sample measured on the injected clock (wall-clock leaks show here)
\* virtual runs stay far below 10^9 ns: anything larger cannot come from the injected clock (and would overflow TLC's integers)
Sane(s) == s.started => /\ s.rttAvg < 1000000000 /\ s.rttOld < 1000000000 /\ s.timer.due < 2000000000 /\ s.timer.d < 1000000000
                        /\ s.ts < 2000000000 /\ s.lbTs < 2000000000 /\ s.lbTime < 2000000000 /\ s.sentAt < 2000000000
RttVirtual(e, pre) ==
  (pre.started /\ e.post.started /\ e.call \notin {"Start", "Reset"} /\ e.post.rttAvg # pre.rttAvg) =>
     /\ Sane(pre) /\ Sane(e.post)
     /\ pre.sentAt >= 0
     \* the estimate moved by a sample that can only be the injected clock's reading minus the instant the proposal was sent: whatever
     \* the smoothing is (the exact arithmetic of rtt.go is part of the conformance check, not of the property), the estimate stays
     \* non-negative and cannot grow by more than that sample
     /\ e.post.rttAvg >= 0 /\ e.post.rttAvg <= pre.rttAvg + (e.now - pre.sentAt)
\* pair runs (driver "shift"): same calls, clocks differing by delta => same effects, absolute instants shifted
ShTs(t, d) == IF t = 0 THEN 0 ELSE IF t > 2000000000 THEN (IF d = 0 THEN t ELSE -1) ELSE t + d
RECURSIVE ShiftP(_, _)
ShiftP(m, d) ==
  CASE m.t = "PrepareRequest" -> [m EXCEPT !.ts = ShTs(@, d)]
    [] m.t = "PrepareResponse" -> [m EXCEPT !.ph.ts = ShTs(@, d)]
    [] m.t \in {"ChangeView", "RecoveryRequest"} -> [m EXCEPT !.ts = ShTs(@, d)]
    [] m.t \in {"Commit", "PreCommit"} -> [m EXCEPT !.b.ts = ShTs(@, d), !.b.prev = ""]   \* prev is a digest of timestamped content
    [] m.t = "RecoveryMessage" -> [m EXCEPT !.prep = [i \in 1..Len(@) |-> ShiftP(@[i], d)], !.cvs = [i \in 1..Len(@) |-> ShiftP(@[i], d)],
                                            !.pcs = [i \in 1..Len(@) |-> ShiftP(@[i], d)], !.cms = [i \in 1..Len(@) |-> ShiftP(@[i], d)]]
    [] OTHER -> m
ShiftEffect(c, d) == CASE c.k = "Broadcast" -> [c EXCEPT !.m = ShiftP(@, d)]
                       [] c.k \in {"ProcessBlock", "ProcessPreBlock"} -> [c EXCEPT !.block.ts = ShTs(@, d), !.block.prev = ""]
                       [] OTHER -> c
\* mode "inputs": both runs were given IDENTICAL inputs (payload and ledger timestamps included), only the clock differs.  Own
\* timestamps then differ irregularly (max(previous + increment, clock)), so payloads are compared by their skeleton; what must be
\* equal exactly is what the node does and every timer duration it asks for.
Skeleton(c) == CASE c.k = "Broadcast" -> [k |-> c.k, t |-> c.m.t, h |-> c.m.h, v |-> c.m.v, from |-> c.m.from]
                 [] c.k = "TimerReset" -> [k |-> c.k, h |-> c.h, v |-> c.v, d |-> c.d]
                 [] c.k = "TimerExtend" -> [k |-> c.k, d |-> c.d]
                 [] c.k \in {"ProcessBlock", "ProcessPreBlock"} -> [k |-> c.k, h |-> c.block.h, ok |-> c.ok, txs |-> c.block.txs]
                 [] c.k = "RequestTx" -> [k |-> c.k, hashes |-> c.hashes]
                 [] OTHER -> [k |-> c.k]
ShiftInputsOK(x) ==
  LET ea == EffectsSeq(x.a)  eb == EffectsSeq(x.b) IN
    /\ x.a.call = x.b.call /\ x.a.panic = x.b.panic
    /\ Len(ea) = Len(eb) /\ \A i \in 1..Len(ea) : Skeleton(ea[i]) = Skeleton(eb[i])
    /\ x.a.post.started = x.b.post.started
    /\ x.a.post.started => /\ x.a.post.h = x.b.post.h /\ x.a.post.v = x.b.post.v /\ x.a.post.rttAvg = x.b.post.rttAvg
                            /\ x.a.post.timer.d = x.b.post.timer.d /\ x.a.post.timer.ext = x.b.post.timer.ext
                            /\ x.a.post.timer.k = x.b.post.timer.k
                            /\ (x.a.post.timer.k = "t" => x.a.post.timer.due + x.delta = x.b.post.timer.due)
ShiftOK(x) ==
  IF "mode" \in DOMAIN x /\ x.mode = "inputs" THEN ShiftInputsOK(x) ELSE
  LET ea == EffectsSeq(x.a)  eb == EffectsSeq(x.b) IN
    /\ x.a.call = x.b.call /\ x.a.panic = x.b.panic
    /\ Len(ea) = Len(eb) /\ \A i \in 1..Len(ea) : ShiftEffect(ea[i], x.delta) = ShiftEffect(eb[i], 0)
    /\ x.a.post.started = x.b.post.started
    /\ x.a.post.started => /\ x.a.post.h = x.b.post.h /\ x.a.post.v = x.b.post.v /\ x.a.post.rttAvg = x.b.post.rttAvg
                            /\ x.a.post.timer.d = x.b.post.timer.d /\ x.a.post.timer.ext = x.b.post.timer.ext
                            /\ x.a.post.timer.k = x.b.post.timer.k
                            /\ (x.a.post.timer.k = "t" => x.a.post.timer.due + x.delta = x.b.post.timer.due)

\* C15 Honest proposals are well formed (every own PrepareRequest broadcast)
LastBefore(e, j, kind) == LET ks == {k \in Cbs(e, kind) : k < j} IN IF ks = {} THEN 0 ELSE CHOOSE k \in ks : \A x \in ks : x <= k
MaxI(a, b) == IF a >= b THEN a ELSE b
ProposalWellFormed(e, j, cfg) ==
  LET at == e.cb[j].at  m == e.cb[j].m
      prevTs == IF e.call \in {"Start", "Reset"} THEN e.arg.ts ELSE initTs[e.n]
      g == LastBefore(e, j, "GetVerified")  c == LastBefore(e, j, "NewPrepareRequest") IN
    (m.from = at.me /\ m.h = at.h) =>
      /\ m.ts > prevTs
      /\ m.ts = MaxI(prevTs + cfg.inc, (e.now \div cfg.inc) * cfg.inc)
      /\ g > 0 /\ m.txs = e.cb[g].pool
      /\ c > 0 /\ e.cb[c].block.ts = m.ts /\ e.cb[c].block.nonce = m.nonce /\ e.cb[c].block.txs = m.txs
      /\ at.ts = m.ts /\ at.nonce = m.nonce /\ at.txs = m.txs
      /\ at.me = at.primary /\ m.v = at.v

\* ... "and the primary's own block for the proposal is built from these same values": whatever the node signs (own Commit) or
\* hands over (ProcessBlock) in a view whose proposal it broadcast itself carries that proposal's timestamp, nonce and transactions
OwnProposals(e, j, h, v, me) == {p \in SentBefore(e, j) : p.t = "PrepareRequest" /\ p.h = h /\ p.v = v /\ p.from = me}
OwnBlockIsProposal(e, j, b) ==
  LET at == e.cb[j].at IN
    \A p \in OwnProposals(e, j, at.h, at.v, at.me) : b.h = p.h => (b.ts = p.ts /\ b.nonce = p.nonce /\ b.txs = p.txs)

\* C06 (the part visible in every state): the primary is (h - v) mod n
PrimaryOK(s) == s.started => s.primary = (s.h - s.v) % s.n /\ s.n = Len(s.vals)
\* N is the length of the validator list the application reported for the height being decided (also after the set shrank or grew)
ValidatorCount(e) == (e.call \in {"Start", "Reset"} /\ e.post.started) => (e.post.n = e.ledger.nvals /\ e.post.vals = e.ledger.vals)

-----------------------------------------------------------------------------
\* Conformance: the logged step is one of the outcomes the specification allows

Node == INSTANCE DbftNode WITH DevEarlyCommitUnverified <- TRUE, Weaken <- {}

SigSlot(s) == IF s.k = "none" THEN None ELSE [k |-> s.k, v |-> s.v, s |-> s.s, b |-> s.b]
CacheSet(c) == UNION { {[h |-> x.h, kind |-> "prepare", from |-> p.from, p |-> p] : p \in Range(x.prepare)}
                       \cup {[h |-> x.h, kind |-> "chViews", from |-> p.from, p |-> p] : p \in Range(x.chViews)}
                       \cup {[h |-> x.h, kind |-> "preCommit", from |-> p.from, p |-> p] : p \in Range(x.preCommit)}
                       \cup {[h |-> x.h, kind |-> "commit", from |-> p.from, p |-> p] : p \in Range(x.commit)} : x \in Range(c) }
CoreFields == {"started", "h", "v", "n", "me", "watch", "primary", "amev", "vals", "prev", "ts", "nonce", "txs", "have", "missing",
               "prep", "pc", "cm", "cv", "lastcv", "seen", "blockDone", "preDone", "hdr", "preHdr", "blk", "preBlk", "cache",
               "timer", "sub", "lbTs", "lbTime", "lbIdx", "lbView", "sentAt", "rttAvg", "rttOld", "tpb", "maxTpb"}
Core(s, cfg) ==
  IF ~s.started THEN [Node!Blank(cfg) EXCEPT !.timer = IF "timer" \in DOMAIN s THEN s.timer ELSE @]
  ELSE [f \in CoreFields |->
          CASE f = "have" -> Range(s.have)
            [] f = "pc" -> [i \in 1..Len(s.pc) |-> SigSlot(s.pc[i])]
            [] f = "cm" -> [i \in 1..Len(s.cm) |-> SigSlot(s.cm[i])]
            [] f = "cache" -> CacheSet(s.cache)
            [] OTHER -> s[f]]
       @@ [out |-> <<>>, fp |-> 0, fb |-> 0, rec |-> FALSE, cfg |-> cfg, env |-> [now |-> 0]]
ViewOf(x) == [f \in CoreFields |-> x[f]]
EnvOf(e) ==
  [now |-> e.now, ledger |-> e.ledger, known |-> Range(e.app.known), pool |-> e.app.pool, bad |-> Range(e.app.bad),
   failPre |-> e.app.failPre, failBlock |-> e.app.failBlock, nilBlock |-> e.app.nilBlock,
   rejects |-> {e.cb[j].m : j \in {k \in 1..Len(e.cb) : e.cb[k].k \in {"VerifyPrepareRequest", "VerifyPrepareResponse", "VerifyCommit", "VerifyPreCommit"} /\ ~e.cb[k].ok}},
   nonce |-> (LET js == Cbs(e, "NewPrepareRequest") IN IF js = {} THEN "0" ELSE e.cb[CHOOSE j \in js : \A k \in js : j <= k].block.nonce),
   rttOldNext |-> e.post.rttOld,
   rmOrder |-> [w \in {e.cb[j].which : j \in Cbs(e, "RMOrder")} |-> e.cb[CHOOSE j \in Cbs(e, "RMOrder") : e.cb[j].which = w].perm]]
\* replay of cached payloads is explored in every order: skip the (rare) calls where that is too many
TooManyOrders(pre, e) ==
  /\ pre.started
  /\ \E x \in Range(pre.cache) : Len(x.prepare) > 4 \/ Len(x.chViews) > 4 \/ Len(x.preCommit) > 4 \/ Len(x.commit) > 4
Conforms(e, pre, cfg) ==
  LET outs == Node!Api(Core(pre, cfg), e.call, e.arg, EnvOf(e))
      want == [s |-> ViewOf(Core(e.post, cfg)), out |-> EffectsSeq(e)]
  IN \E o \in outs : [s |-> ViewOf(o), out |-> o.out] = want

-----------------------------------------------------------------------------
\* The set of failed formulas of one step: <<property, formula, known-finding tag>>

StepViolations(e, pre, cfg) ==
  LET P(id, name, ok) == IF ok THEN {} ELSE {<<id, name, "">>}
      PerBlock == UNION { ( IF Forks(e, j) = {} THEN {}
                            ELSE {<<"C01", "Agreement",
                                   IF KF1At(e, j) \/ \E x \in Forks(e, j) : acc[x[1]][x[2]].kf THEN "KF-1" ELSE "">>} )
                          \cup ( IF CertCount(e, j) THEN {} ELSE {<<"C02", "CertCount", IF KF1At(e, j) THEN "KF-1" ELSE "">>} )
                          \cup P("C02", "CertTip", CertTip(e, j))
                          \cup P("C02", "CertProposal", CertProposal(e, j))
                          \cup P("C02", "CertBody", ~ReqStored(e.cb[j].at) \/ CertBody(e, j))
                          \cup P("C05", "OneDecision", OneDecision(e, j))
                          \cup P("C15", "OwnBlockIsProposal", OwnBlockIsProposal(e, j, e.cb[j].block))
                          \cup P("C08", "DecidedInView0", DecidedInView0(e, j))
                          \cup P("C08", "SameBlockInSync", SameBlockInSync(e, j))
                          \cup ( IF SilentViewBound(e, j) THEN {}
                                 ELSE {<<"C09", "SilentViewBound", IF e.cb[j].block.h \in recPrim THEN "KF-2" ELSE "">>} )
                        : j \in OkCb(e, "ProcessBlock") }
      PerPre == UNION { P("C02", "PreCertCount", PreCertCount(e, j)) \cup P("C02", "PreCertProposal", CertProposal(e, j))
                        \cup P("C02", "PreCertBody", ~ReqStored(e.cb[j].at) \/ CertBody(e, j))
                        \cup P("C07", "PreBlockOnce", PreBlockOnce(e, j) \/ \E k \in OkCb(e, "ProcessPreBlock") : k < j => FALSE)
                        : j \in OkCb(e, "ProcessPreBlock") }
      PerBc == UNION { P("C03", "NonEquivocation", NonEquivocation(e, j))
                       \cup P("C03", "ViewMonotone", ViewMonotone(e, j))
                       \cup P("C13", "SilentAt", SilentAt(e, j))
                       \cup ( IF e.cb[j].m.t = "PrepareResponse" THEN P("C04", "ResponseEvidence", ResponseEvidence(e, j)) ELSE {} )
                       \cup ( IF e.cb[j].m.t = "PrepareRequest"
                              THEN P("C15", "ProposalWellFormed", ProposalWellFormed(e, j, cfg)) \cup P("C16", "MinGap", MinGap(e, j)) \cup P("C16", "EmptyOnlyAfterMax", EmptyOnlyAfterMax(e, j)) ELSE {} )
                       \cup ( IF /\ e.cb[j].m.t = (IF e.cb[j].at.amev THEN "PreCommit" ELSE "Commit")
                                 /\ FirstLock(e, j)
                              THEN P("C04", "CommitEvidence", CommitEvidence(e, j)) ELSE {} )
                       \cup ( IF /\ e.cb[j].m.t = "Commit" /\ e.cb[j].m.from = e.cb[j].at.me /\ e.cb[j].m.s = e.cb[j].at.vals[e.cb[j].at.me + 1]
                                 /\ ~\E q \in EchoBase(e) : q.t = "Commit" /\ Body(q) = Body(e.cb[j].m)     \* not a Commit of an earlier incarnation
                              THEN P("C15", "OwnBlockIsProposal", OwnBlockIsProposal(e, j, e.cb[j].m.b)) ELSE {} )
                       \cup ( IF e.cb[j].m.t = "Commit" /\ ~\E p \in SentBefore(e, j) : p.t = "Commit" /\ p.h = e.cb[j].at.h
                              THEN P("C07", "PhaseOrder", PhaseOrder(e, j)) ELSE {} )
                       : j \in Bcs(e) }
      PerSnap == UNION { P("C03", "CommitLock", CommitLockCb(e, j))
                         \cup P("C04", "ViewEvidence", ViewEvidence(e.cb[j].at))
                         \cup P("C06", "PrimaryOK", PrimaryOK(e.cb[j].at))
                         : j \in SnapCbs(e) }
  IN IF e.panic # "" THEN {<<"C11", "NoPanic", "">>}
     ELSE PerBlock \cup PerPre \cup PerBc \cup PerSnap
          \cup P("C03", "CommitLockPost", CommitLockPost(e, pre))
          \cup P("C04", "ViewEvidence", ViewEvidence(e.post))
          \cup P("C05", "Quiescent", Quiescent(e, pre))
          \cup P("C05", "QuietAfterBlock", QuietAfterBlock(e))
          \cup P("C05", "CacheKeeps", CacheKeeps(e, pre))
          \cup P("C05", "EarlyUsedT", EarlyUsedT(e, pre))
          \cup P("C05", "EarlyKept", EarlyKept(e, pre))
          \cup ( IF e.call \in {"Start", "Reset"} THEN P("C05", "CleanReset", CleanReset(e, pre)) ELSE {} )
          \cup P("C06", "PrimaryOK", PrimaryOK(e.post))
          \cup P("C06", "ValidatorCount", ValidatorCount(e))
          \cup P("C07", "BlockAfterPre", BlockAfterPre(e, pre))
          \cup P("C07", "AmevOff", AmevOff(e, pre))
          \cup P("C10", "TimerArmed", TimerArmed(e))
          \cup P("C10", "TimerArgs", TimerArgs(e))
          \cup P("C10", "TimeoutRearms", TimeoutRearms(e, pre))
          \cup P("C11", "NoEffect", NoEffect(e, pre))
          \cup P("C11", "Redelivery", Redelivery(e, pre))
          \cup P("C11", "HeldTxsBelong", HeldTxsBelong(e.post))
          \cup P("C12", "Answers", Answers(e, pre))
          \cup P("C13", "Silent", Silent(e, pre))
          \cup P("C08", "NoViewChangeAsked", NoViewChangeAsked(e))
          \cup P("C16", "NoViewChangeAsked", ~DynRun \/ NoViewChangeAsked(e))
          \cup P("C14", "RttVirtual", RttVirtual(e, pre))
          \cup P("C16", "PromptProposal", PromptProposal(e, pre))
          \cup P("C16", "SubscribeOnlyIfConfigured", SubscribeOnlyIfConfigured(e, cfg))

-----------------------------------------------------------------------------
\* History updates

NewHeight(e, pre) == e.fresh \/ ~pre.started \/ e.post.h # pre.h \/ e.call \in {"Start", "Reset"}
OwnAll(e) == UNION {OwnAt(e, j) : j \in Bcs(e)}
TopOwn(e) == {e.cb[j].m : j \in Bcs(e)}
NextSent(e, pre) ==
  LET keep == IF NewHeight(e, pre) THEN {} ELSE sent[e.n] IN
    {p \in keep \cup OwnAll(e) : p.h = e.post.h /\ p.t \in {"PrepareRequest", "PrepareResponse", "Commit", "PreCommit", "ChangeView"}}
NextEcho(e, pre) ==
  LET keep == IF NewHeight(e, pre) THEN {} ELSE echo[e.n]
      got == IF e.call = "OnReceive" /\ e.post.started /\ e.post.me >= 0
             THEN {p \in {e.arg} \cup Embedded(e.arg) : p.from = e.post.me /\ p.h = e.post.h /\ p.t \in {"PrepareRequest", "PrepareResponse", "Commit", "PreCommit", "ChangeView"}}
             ELSE {}
  IN keep \cup got
NextLock(e, pre) ==
  LET old == IF NewHeight(e, pre) THEN None ELSE lock[e.n]
      ks == {k \in Bc(e, "Commit") \cup Bc(e, "PreCommit") : e.cb[k].m.h = e.post.h}
  IN IF old.k # "none" THEN old
     ELSE IF ks = {} THEN None
     ELSE LET k0 == CHOOSE k \in ks : \A x \in ks : k <= x
          IN [k |-> "lock", v |-> e.cb[k0].at.v, m |-> e.cb[k0].m]
MaxOf(S) == IF S = {} THEN 0 ELSE CHOOSE x \in S : \A y \in S : y <= x
NextMaxv(e, pre) ==
  MaxOf({IF NewHeight(e, pre) THEN 0 ELSE maxv[e.n]}
        \cup {p.v : p \in {q \in TopOwn(e) : q.h = e.post.h /\ q.t # "RecoveryMessage"}})
NextAcc(e) ==
  LET old == IF e.fresh THEN <<>> ELSE acc[e.n]
      js == OkCb(e, "ProcessBlock")
  IN IF js = {} THEN old
     ELSE LET j == CHOOSE x \in js : TRUE
          IN Append(old, [h |-> e.cb[j].block.h, b |-> e.cb[j].block, kf |-> KF1At(e, j)])
NextPreOk(e, pre) == (IF NewHeight(e, pre) THEN 0 ELSE preOk[e.n]) + Cardinality(OkCb(e, "ProcessPreBlock"))

-----------------------------------------------------------------------------
Init == /\ l = 1 /\ run = [call |-> "none"] /\ st = <<>> /\ acc = <<>> /\ sent = <<>> /\ lock = <<>>
        /\ maxv = <<>> /\ preOk = <<>> /\ txq = <<>> /\ nviol = 0
        /\ cfgs = <<>> /\ echo = <<>> /\ ndiv = [checked |-> 0, diverged |-> 0, skipped |-> 0] /\ lastProp = None /\ recPrim = {} /\ initTs = <<>>
        /\ TLCSet(1, ndiv)

StartRun ==
  /\ l <= Len(TLog) /\ IsRunStart(TLog[l])
  /\ LET ns == Range(TLog[l].nodes) IN
       /\ run' = TLog[l]
       /\ st' = [n \in ns |-> NotStarted]
       /\ acc' = [n \in ns |-> <<>>]
       /\ sent' = [n \in ns |-> {}]
       /\ echo' = [n \in ns |-> {}]
       /\ lock' = [n \in ns |-> None]
       /\ maxv' = [n \in ns |-> 0]
       /\ preOk' = [n \in ns |-> 0]
       /\ txq' = [n \in ns |-> [key |-> NoKey, asked |-> {}, given |-> {}]]
       /\ cfgs' = [n \in ns |-> [tpb |-> 0, maxTpb |-> 0, inc |-> 1, amevH |-> -1, watch |-> FALSE]]
       /\ lastProp' = None /\ recPrim' = {} /\ initTs' = [n \in ns |-> 0]
  /\ l' = l + 1 /\ UNCHANGED <<nviol, ndiv>>

Report(e, x) == PrintT(<<"VIOL", x[1], x[2], x[3], run.run, e.i, e.n, e.call>>)
Diverge(e) == PrintT(<<"DIVERGE", run.run, e.i, e.n, e.call, IF e.call = "OnReceive" THEN e.arg.t ELSE "">>)
\* debugging aid (VERIF_CONFORM_DEBUG=1): which fields differ from each model outcome
DebugOn == "VERIF_CONFORM_DEBUG" \in DOMAIN IOEnv
DivergeDetail(e, pre, cfg) ==
  LET outs == Node!Api(Core(pre, cfg), e.call, e.arg, EnvOf(e))
      want == ViewOf(Core(e.post, cfg))
  IN \A o \in outs :
       LET df == {f \in CoreFields : ViewOf(o)[f] # want[f]} IN
         PrintT(<<"DIFF", e.i, df, [f \in df |-> <<"model", ViewOf(o)[f], "real", want[f]>>],
                  IF o.out = EffectsSeq(e) THEN "out-equal" ELSE <<"model-out", o.out, "real-out", EffectsSeq(e)>>>>)

Step ==
  /\ l <= Len(TLog) /\ ~IsRunStart(TLog[l]) /\ ~IsRunEnd(TLog[l]) /\ ~IsPair(TLog[l])
  /\ LET e == TLog[l]
         cfg == IF "cfg" \in DOMAIN e THEN e.cfg ELSE cfgs[e.n]
         pre0 == IF e.fresh THEN NotStarted ELSE st[e.n]
         \* the watch-only flag is a callback of the application: it may have been set since the previous call returned
         pre == IF pre0.started THEN [pre0 EXCEPT !.watch = (pre0.me < 0 \/ cfg.watch)] ELSE pre0
         V == StepViolations(e, pre, cfg)
         conf == IF ~CheckConformance \/ e.panic # "" THEN "off"
                 ELSE IF TooManyOrders(pre, e) \/ ~Sane(pre) \/ ~Sane(e.post) THEN "skipped"
                 ELSE IF Conforms(e, pre, cfg) THEN "ok" ELSE "diverged"
     IN /\ \A x \in V : Report(e, x)
        /\ conf = "diverged" => Diverge(e) /\ (DebugOn => DivergeDetail(e, pre, cfg))
        /\ ndiv' = [checked |-> ndiv.checked + (IF conf \in {"ok", "diverged"} THEN 1 ELSE 0),
                    diverged |-> ndiv.diverged + (IF conf = "diverged" THEN 1 ELSE 0),
                    skipped |-> ndiv.skipped + (IF conf = "skipped" THEN 1 ELSE 0)]
        /\ cfgs' = [cfgs EXCEPT ![e.n] = cfg]
        /\ TLCSet(1, ndiv')
        /\ nviol' = nviol + Cardinality(V)
        /\ st' = [st EXCEPT ![e.n] = e.post]
        /\ acc' = [acc EXCEPT ![e.n] = NextAcc(e)]
        /\ IF e.panic # "" \/ ~e.post.started
           THEN UNCHANGED <<sent, lock, maxv, preOk, txq, echo>>
           ELSE /\ sent' = [sent EXCEPT ![e.n] = NextSent(e, pre)]
                /\ echo' = [echo EXCEPT ![e.n] = NextEcho(e, pre)]
                /\ lock' = [lock EXCEPT ![e.n] = NextLock(e, pre)]
                /\ maxv' = [maxv EXCEPT ![e.n] = NextMaxv(e, pre)]
                /\ preOk' = [preOk EXCEPT ![e.n] = NextPreOk(e, pre)]
                /\ txq' = [txq EXCEPT ![e.n] = NextTxq(e, pre)]
        /\ lastProp' = (LET js == Bc(e, "PrepareRequest") IN
                          IF js = {} \/ e.panic # "" THEN lastProp
                          ELSE LET j == CHOOSE x \in js : \A y \in js : y <= x IN [k |-> "p", now |-> e.now, h |-> e.cb[j].m.h])
        /\ recPrim' = IF /\ e.call = "OnReceive" /\ e.arg.t = "RecoveryMessage" /\ e.panic = "" /\ pre.started /\ e.post.started
                         /\ e.post.h = pre.h /\ e.post.v > pre.v /\ e.post.me = e.post.primary
                      THEN recPrim \cup {e.post.h} ELSE recPrim
        /\ initTs' = IF e.call \in {"Start", "Reset"} THEN [initTs EXCEPT ![e.n] = e.arg.ts] ELSE initTs
  /\ l' = l + 1 /\ UNCHANGED run

EndViolations(x) ==
  LET P(id, name, ok) == IF ok THEN {} ELSE {<<id, name, "">>} IN
    (IF SyncRun THEN P("C08", "AllAtTarget", AllAtTarget(x)) \cup P("C08", "DecidedThemselves", DecidedThemselves(x)) ELSE {})
    \cup (IF DynRun THEN P("C16", "AllAtTarget", AllAtTarget(x)) ELSE {})
    \cup (IF FaultRun THEN P("C09", "AllAtTarget", AllAtTarget(x)) ELSE {})
EndRun ==
  /\ l <= Len(TLog) /\ IsRunEnd(TLog[l])
  /\ LET V == EndViolations(TLog[l]) IN
       /\ \A x \in V : PrintT(<<"VIOL", x[1], x[2], x[3], run.run, 0, -1, "RunEnd">>)
       /\ nviol' = nviol + Cardinality(V)
  /\ l' = l + 1 /\ UNCHANGED <<run, st, acc, sent, lock, maxv, preOk, txq, cfgs, ndiv, lastProp, recPrim, initTs, echo>>

PairStep ==
  /\ l <= Len(TLog) /\ IsPair(TLog[l])
  /\ LET ok == ShiftOK(TLog[l]) IN
       /\ ~ok => PrintT(<<"VIOL", "C14", "ClockShift", "", run.run, TLog[l].i, 500, TLog[l].a.call>>)
       /\ nviol' = nviol + (IF ok THEN 0 ELSE 1)
  /\ l' = l + 1 /\ UNCHANGED <<run, st, acc, sent, lock, maxv, preOk, txq, cfgs, ndiv, lastProp, recPrim, initTs, echo>>

Next == StartRun \/ Step \/ EndRun \/ PairStep
Spec == Init /\ [][Next]_vars

\* the whole file was consumed (checked when TLC has finished)
Consumed == TLCGet("stats").diameter = Len(TLog) + 1
Summary == PrintT(<<"TRACE-SUMMARY", Len(TLog), TLCGet("stats").diameter>>)
ConfSummary == PrintT(<<"CONFORMANCE", TLCGet(1)>>)
Post == Summary /\ ConfSummary /\ Consumed
=============================================================================
