---------------------------- MODULE AgreementAbs ----------------------------
(***************************************************************************)
(* C01, design part: the abstract commit/accept protocol.  Model-checked   *)
(* by TLC for small constants (this module) and PROVED for every validator *)
(* count, view set and Byzantine strategy by TLAPS (AgreementProof.tla):   *)
(*                                                                         *)
(*     Agreement follows from two NODE-LOCAL guarantees                    *)
(*       G1 OneCommit    an honest validator signs at most one Commit per  *)
(*                       height (whatever the view),                       *)
(*       G2 Certificate  an honest validator hands a block to the          *)
(*                       application only while it holds Commits of ONE    *)
(*                       view from >= M distinct validators whose          *)
(*                       signatures verify against that block              *)
(*     plus the hypothesis of C01 (at most F Byzantine validators, who     *)
(*     cannot sign for honest ones) and the quorum arithmetic of C06       *)
(*     (QuorumProof.tla: 2M - N > F).                                      *)
(*                                                                         *)
(* G1 and G2 are exactly the invariants OneCommit (+ CommitLock, which is  *)
(* what keeps G1 true across views) and Certificate that TLC checks        *)
(* exhaustively on the open single-node composition MC_Node of the         *)
(* implementation-shaped specification DbftNode.tla, and the formulas      *)
(* NonEquivocation / CertCount that are evaluated on every logged step of  *)
(* the real code.  Nothing else an honest node does (preparations, view    *)
(* changes, recovery) matters for safety; it matters for liveness.  This   *)
(* is the assume-guarantee step that turns the node-local exhaustive       *)
(* checks into the global property without enumerating the closed          *)
(* N-node state space (which MC_Net can only sample).                      *)
(*                                                                         *)
(* The abstract state: cm[i] = the set of (view, block) pairs honest i has *)
(* signed a Commit for; acc[i] = the blocks i handed to the application.   *)
(* Byzantine validators are not represented: a certificate may count any   *)
(* of them for anything.                                                   *)
(***************************************************************************)
EXTENDS Integers, FiniteSets

CONSTANTS Val,      \* validators of the height
          Byz,      \* the Byzantine ones
          View, Block,
          Weak      \* "none" = the protocol; "two_commits" drops G1, "M_minus_1" weakens G2 (TLC then finds a fork: both are needed)

N == Cardinality(Val)
F == (N - 1) \div 3
M == N - F
Honest == Val \ Byz

ASSUME ValAssm == IsFiniteSet(Val) /\ Val # {}
ASSUME ByzAssm == Byz \subseteq Val /\ Cardinality(Byz) <= F

VARIABLES cm, acc
vars == <<cm, acc>>

Quorum(Q) == Q \subseteq Val /\ Cardinality(Q) >= (IF Weak = "M_minus_1" THEN M - 1 ELSE M)
\* a certificate for b: a quorum all of whose honest members signed (v, b)
Cert(v, b) == \E Q \in SUBSET Val : Quorum(Q) /\ \A j \in Q \cap Honest : <<v, b>> \in cm[j]
Chosen(b) == \E v \in View : Cert(v, b)

Init == cm = [i \in Honest |-> {}] /\ acc = [i \in Honest |-> {}]
\* G1: only a node that has not signed yet signs
Commit(i, v, b) == (cm[i] = {} \/ Weak = "two_commits") /\ cm' = [cm EXCEPT ![i] = @ \cup {<<v, b>>}] /\ UNCHANGED acc
\* G2: acceptance needs a certificate
Accept(i, b) == Chosen(b) /\ acc' = [acc EXCEPT ![i] = @ \cup {b}] /\ UNCHANGED cm
Next == \E i \in Honest : \E b \in Block : Accept(i, b) \/ \E v \in View : Commit(i, v, b)
Spec == Init /\ [][Next]_vars

Agreement == \A i, j \in Honest : \A b \in acc[i] : \A c \in acc[j] : b = c

TypeOK == cm \in [Honest -> SUBSET (View \X Block)] /\ acc \in [Honest -> SUBSET Block]
Inv == /\ TypeOK
       /\ \A i \in Honest : \A p, q \in cm[i] : p = q
       /\ \A i \in Honest : \A b \in acc[i] : Chosen(b)

=============================================================================
