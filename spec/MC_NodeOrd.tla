----------------------------- MODULE MC_NodeOrd -----------------------------
(***************************************************************************)
(* MC_Node under a SENDER-ORDER REDUCTION (next-state relation NextOrd).   *)
(*                                                                         *)
(* The node under test treats the other validators alike (only the primary *)
(* of a view is special).  Exploring every subset of senders for every     *)
(* kind of payload is what makes the two-view configurations with the      *)
(* anti-MEV phase too large for a state cover (> 6 M states).  Here the    *)
(* environment delivers the payloads of one kind (responses, commits,      *)
(* pre-commits, change views of one view) in increasing order of the       *)
(* sender's index: validator i may speak only after every lower-indexed    *)
(* other validator has its payload of that kind in the node's tables (or   *)
(* in the cache, for a future view).  Every count 0..N-1 of payloads of    *)
(* every kind is still reached - the thresholds F, M are what the guards   *)
(* of the code compare with - but one representative subset per count.     *)
(* This is a reduction of the ENVIRONMENT, not of the node: every          *)
(* behaviour of SpecOrd is a behaviour of Spec, so the invariants checked  *)
(* on Spec hold here; the point of this module is the state COVER executed *)
(* on the real node (two views, anti-MEV, recovery messages).              *)
(*                                                                         *)
(* It also states the per-step form of C07 that the state invariant        *)
(* PhaseOrder of MC_Node cannot express: at the step in which the node's   *)
(* Commit first becomes visible, it holds its own PreCommit, M PreCommits  *)
(* of its CURRENT view, and the PreBlock has been processed.               *)
(***************************************************************************)
EXTENDS MC_NodeCover

\* lower-indexed other validators that could have spoken for (kind, view v) before i
Before(i, v, kind) == {j \in Others : j < i /\ (kind # "prep" \/ j # Prim(v))}
InCache(s, h, kind, j, v) == \E c \in s.cache : c.h = h /\ c.kind = kind /\ c.from = j /\ c.p.v = v
OrdOK(s, m) ==
  IF ~s.started \/ m.h # s.h \/ m.from = Me \/ m.from >= N THEN TRUE
  ELSE CASE m.t = "PrepareResponse" ->
              \A j \in Before(m.from, m.v, "prep") :
                 IF m.v > s.v THEN InCache(s, m.h, "prepare", j, m.v) ELSE (m.v < s.v \/ s.prep[j + 1].k # "none")
         [] m.t = "Commit" ->
              \A j \in Before(m.from, m.v, "cm") :
                 IF m.v > s.v THEN InCache(s, m.h, "commit", j, m.v) ELSE s.cm[j + 1].k # "none"
         [] m.t = "PreCommit" ->
              \A j \in Before(m.from, m.v, "pc") :
                 IF m.v > s.v THEN InCache(s, m.h, "preCommit", j, m.v) ELSE (~s.amev \/ s.pc[j + 1].k # "none")
         [] m.t = "ChangeView" ->
              \A j \in Before(m.from, m.v, "cv") :
                 m.nv <= s.v \/ (s.cv[j + 1].k = "cv" /\ s.cv[j + 1].nv >= m.nv)
         [] OTHER -> TRUE

NextOrd == \E c \in {d \in Calls(x) : d.call # "OnReceive" \/ OrdOK(x, d.arg)} :
             \E env \in EnvsAt(IF c.call = "Reset" THEN H + 1 ELSE x.h) : Step(c, env)
SpecOrd == Init /\ [][NextOrd]_vars

\* C07, per step: the Commit becomes visible only with the own PreCommit, M PreCommits of the current view and a processed PreBlock
CommitNeedsPreCommits ==
  [][(x'.amev /\ Own("Commit") = {} /\ Own("Commit")' # {}) =>
        /\ Own("PreCommit")' # {} /\ x'.preDone
        /\ Cardinality({i \in 1..x'.n : x'.pc[i].k = "pc" /\ x'.pc[i].v = x'.v}) >= M]_vars
\* C04, per step: the first PreCommit / Commit (anti-MEV off) becomes visible only with M matching preparations of the current view
LockNeedsPreparations ==
  [][(Own("Commit") \cup Own("PreCommit") = {} /\ (Own("Commit") \cup Own("PreCommit"))' # {} /\ "echo" \notin Family) =>
        /\ x'.prep[x'.primary + 1].k = "req"
        /\ Cardinality({i \in 1..x'.n : x'.prep[i].k \in {"req", "resp"} /\ x'.prep[i].v = x'.v /\ x'.prep[i].ph = x'.prep[x'.primary + 1].ph}) >= M]_vars
=============================================================================
