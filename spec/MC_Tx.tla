------------------------------- MODULE MC_Tx -------------------------------
(***************************************************************************)
(* C12 at design level: the transaction path of one backup, exhaustively.  *)
(*                                                                         *)
(* One node of DbftNode.tla, backup in views 0 and 1 of height H.  The     *)
(* environment delivers proposals (two contents per view: <<tA, tB>> and   *)
(* <<tX>>), change views of the others, fires the timer, supplies          *)
(* transactions (OnTransaction with tA, tB, tX in any order, also ones     *)
(* nobody asked for); the application's pool may or may not know the       *)
(* transactions when the library looks (GetTx), and tX may make the block  *)
(* fail verification.  Nothing else (responses / commits of the others do  *)
(* not matter for C12 and would only multiply the states).                 *)
(*                                                                         *)
(* Bookkeeping (as the application would keep it): for the proposal the    *)
(* node currently stores, which hashes it asked for (RequestTx) and which  *)
(* were supplied through OnTransaction.                                    *)
(*   Answers: whenever every requested hash has been supplied while the    *)
(*   node stayed in that view and has not asked to leave it, the node has  *)
(*   broadcast a PrepareResponse for that view (or a ChangeView).          *)
(* The state cover is executed on the real node (trace formula Answers).   *)
(***************************************************************************)
EXTENDS Integers, Sequences, FiniteSets, TLC, Json

CONSTANTS N, Me, AmevOn, MaxView, Emit, CoverMod

Node == INSTANCE DbftNode WITH DevEarlyCommitUnverified <- TRUE, Weaken <- {}

H == 2
Val == 0..(N - 1)
Others == Val \ {Me}
Now == 5000
Cfg == [tpb |-> 1000, maxTpb |-> 0, inc |-> 1, amevH |-> IF AmevOn THEN 0 ELSE -1, watch |-> FALSE]
Ledger == [height |-> H - 1, tip |-> "T:tip", tipTs |-> 4000, nvals |-> N, myIndex |-> Me, vals |-> [i \in 1..N |-> IF i - 1 = Me THEN 500 ELSE i - 1]]
Prim(v) == (H - v) % N
Views == 0..MaxView
Txs(c) == IF c = 1 THEN <<"tA", "tB">> ELSE <<"tX">>
Req(v, c) == [t |-> "PrepareRequest", h |-> H, v |-> v, from |-> Prim(v), ts |-> 4001, nonce |-> IF c = 1 THEN "101" ELSE "102", txs |-> Txs(c)]
Cv(i, v) == [t |-> "ChangeView", h |-> H, v |-> v, from |-> i, ts |-> Now, nv |-> v + 1, reason |-> 0]

VARIABLES x, book, hist
vars == <<x, book, hist>>

Envs == {[now |-> Now, ledger |-> Ledger, known |-> kn, pool |-> <<>>, bad |-> bd, failPre |-> 0, failBlock |-> 0, nilBlock |-> FALSE,
          rejects |-> {}, nonce |-> "201", rttOldNext |-> 0, rmOrder |-> <<>>]
           : kn \in {{}, {"tA", "tB", "tX"}}, bd \in {{}, {"tX"}}}
Env0 == [now |-> Now, ledger |-> Ledger, known |-> {}, pool |-> <<>>, bad |-> {}, failPre |-> 0, failBlock |-> 0, nilBlock |-> FALSE,
         rejects |-> {}, nonce |-> "201", rttOldNext |-> 0, rmOrder |-> <<>>]

Calls == {[call |-> "OnReceive", arg |-> Req(v, c)] : v \in Views, c \in {1, 2}}
         \cup {[call |-> "OnReceive", arg |-> Cv(i, v)] : i \in Others, v \in Views}
         \cup {[call |-> "OnTimeout", arg |-> [h |-> H, v |-> v]] : v \in Views}
         \cup {[call |-> "OnTransaction", arg |-> [tx |-> t]] : t \in {"tA", "tB", "tX"}}

Strip(o) == [o EXCEPT !.out = <<>>, !.env = [now |-> 0], !.fp = 0, !.fb = 0]
Bcasts(out) == {out[j].m : j \in {k \in 1..Len(out) : out[k].k = "Broadcast"}}
Asked(out) == UNION {Node!Range(out[j].hashes) : j \in {k \in 1..Len(out) : out[k].k = "RequestTx"}}
KeyOf(s) == IF s.started /\ s.prep[s.primary + 1].k = "req" THEN [v |-> s.v, ph |-> s.prep[s.primary + 1].ph] ELSE [v |-> -1]
NoKey == [v |-> -1]

\* the application's bookkeeping after a call (same rule as NextTxq of DbftTrace.tla)
NextBook(o, c) ==
  LET k == KeyOf(o) IN
    IF k = NoKey THEN [key |-> NoKey, asked |-> {}, given |-> {}]
    ELSE IF k = book.key /\ k = KeyOf(x)
         THEN [key |-> k, asked |-> book.asked \cup Asked(o.out), given |-> book.given \cup (IF c.call = "OnTransaction" THEN {c.arg.tx} ELSE {})]
         ELSE [key |-> k, asked |-> Asked(o.out) \cap Node!Range(k.ph.txs), given |-> {}]

Init == \E o \in Node!Api(Node!Blank(Cfg), "Start", [ts |-> 4000], Env0) :
          /\ x = Strip(o) /\ book = [key |-> NoKey, asked |-> {}, given |-> {}]
          /\ hist = [sent |-> {}, last |-> "Start", evs |-> IF Emit THEN <<[call |-> "Start", arg |-> [ts |-> 4000], env |-> Env0, cfg |-> Cfg]>> ELSE <<>>]

Step(c, env) == \E o \in Node!Api(x, c.call, c.arg, env) :
                  /\ Strip(o) # x \/ o.out # <<>>
                  /\ x' = Strip(o)
                  /\ book' = NextBook(o, c)
                  /\ hist' = [sent |-> {m \in hist.sent \cup Bcasts(o.out) : m.t \in {"PrepareResponse", "ChangeView"}}, last |-> c.call,
                              evs |-> IF Emit THEN Append(hist.evs, [call |-> c.call, arg |-> c.arg, env |-> env]) ELSE <<>>]
Next == \E c \in Calls : \E env \in Envs : Step(c, env)
Spec == Init /\ [][Next]_vars
\* MissingTransactions grows by duplicates on every re-request (observation O-13): bounded here
ViewBound == x.v <= MaxView /\ Len(x.missing) <= 3
View == <<x, book, hist.sent, hist.last>>

\* C12 (evaluated, as in the trace formula, after a call that supplied a transaction)
Answers ==
  ( /\ hist.last = "OnTransaction" /\ x.me # x.primary /\ ~x.blockDone
    /\ book.key # NoKey /\ book.asked # {} /\ book.asked \subseteq book.given
    /\ ~\E m \in hist.sent : m.t = "ChangeView" /\ m.v = x.v )
  => \E m \in hist.sent : m.t = "PrepareResponse" /\ m.v = x.v

EmitCover == (Emit /\ (CoverMod = 1 \/ TLCGet("generated") % CoverMod = 0)) => PrintT(<<"COVER", ToJson(hist.evs)>>)
=============================================================================
