------------------------------- MODULE SimApp -------------------------------
(***************************************************************************)
(* C17: the application contract the bundled simulation has to follow,     *)
(* checked on the log of the real binary.  Rows: one "cfg" row per run     *)
(* (validators, watchers, blocked validator, duration, min_blocks) and one *)
(* "accept" row per "approving block" log line, in log order.              *)
(*   Gapless    every node accepts heights 1, 2, 3, ... in order           *)
(*   Agreement  all nodes of a run accept the same hash at a height        *)
(*   KeepsGoing every validator (and watcher) reaches at least min_blocks  *)
(***************************************************************************)
EXTENDS Integers, Sequences, FiniteSets, TLC, Json, IOUtils
Rows == ndJsonDeserialize(IOEnv.VERIF_TRACE)
Idx == 1..Len(Rows)
Cfgs == {i \in Idx : Rows[i].k = "cfg"}
Acc(c) == {i \in Idx : Rows[i].k = "accept" /\ Rows[i].cfg = c}
NodesOf(cf) == 0..(cf.count + cf.watchers - 1)
HeightsOf(c, n) == {Rows[i].height : i \in {j \in Acc(c) : Rows[j].id = n}}
Gapless(c, n) ==
  /\ \A i, j \in {k \in Acc(c) : Rows[k].id = n} : i < j => Rows[i].height < Rows[j].height
  /\ LET H == HeightsOf(c, n) IN H = 1..Cardinality(H)
Agreement(c) == \A i, j \in Acc(c) : Rows[i].height = Rows[j].height => Rows[i].hash = Rows[j].hash
KeepsGoing(cf, c, n) == Cardinality(HeightsOf(c, n)) >= cf.min_blocks
Bad == UNION { LET cf == Rows[ci]  c == cf.cfg IN
                 (IF Agreement(c) THEN {} ELSE {<<"Agreement", c, -1>>})
                 \cup UNION { (IF Gapless(c, n) THEN {} ELSE {<<"Gapless", c, n>>})
                              \cup (IF KeepsGoing(cf, c, n) THEN {} ELSE {<<"KeepsGoing", c, n>>}) : n \in NodesOf(cf) }
               : ci \in Cfgs }
VARIABLE x
Init == x = 0 /\ (\A b \in Bad : PrintT(<<"VIOL", "C17", b[1], b[2], b[3]>>)) /\ PrintT(<<"SIM-SUMMARY", Len(Rows), Cardinality(Bad)>>)
Next == FALSE /\ x' = x
Spec == Init /\ [][Next]_x
Post == TLCGet("stats").diameter = 1
=============================================================================
