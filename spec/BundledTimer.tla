--------------------------- MODULE BundledTimer ---------------------------
(***************************************************************************)
(* C18: the default timer (timer/timer.go).  Specification of what its     *)
(* single-goroutine user may observe, and validation of logged real        *)
(* operation sequences against it.                                         *)
(*                                                                         *)
(* Abstract state after every operation: [h, v, start, total, consumed]    *)
(*   start    = instant of the latest Reset (we only know it lies between  *)
(*              the stamps t0/t1 taken around the call)                    *)
(*   total    = reset duration plus all extensions since                   *)
(*   deadline = start + total                                              *)
(* Rules checked on every logged event (times in ns, monotonic clock):     *)
(*   NeverEarly  an expiry read at t1 satisfies t1 >= start.t0 + total     *)
(*   Reports     Height()/View() equal the latest Reset                    *)
(*   Delivered   a reader that waited until after start.t1 + total + Tol   *)
(*               without anything consumed since the timer was (re)armed   *)
(*               got the expiry (also for a zero duration)                 *)
(*   NoStale     covered by NeverEarly: an expiry armed by an earlier      *)
(*               Reset would be read before the new deadline               *)
(***************************************************************************)
EXTENDS Integers, Sequences, FiniteSets, TLC, Json, IOUtils

Log == ndJsonDeserialize(IOEnv.VERIF_TRACE)
Tol == 500000000   \* 500 ms: deliberately loose, a loaded machine must not raise an alarm

VARIABLES l, st, nbad
vars == <<l, st, nbad>>
Fresh == [armed |-> FALSE, h |-> 0, v |-> 0, s0 |-> 0, s1 |-> 0, total |-> 0, consumed |-> FALSE, sure |-> TRUE, run |-> -1]

Bad(e, name) == PrintT(<<"VIOL", "C18", name, e.run, e.i, e.k>>)

\* state before event e (a new run starts from scratch)
Pre(e) == IF st.run = e.run THEN st ELSE [Fresh EXCEPT !.run = e.run]

Checks(e, s) ==
  LET reports == e.k \in {"Reset"} => (e.rh = e.h /\ e.rv = e.v)
      reports2 == (e.k # "Reset" /\ s.armed) => (e.rh = s.h /\ e.rv = s.v)
      neverEarly == (e.k = "Wait" /\ e.got) => (s.armed /\ e.t1 >= s.s0 + s.total)
      delivered == (e.k = "Wait" /\ ~e.got /\ s.armed /\ s.sure /\ ~s.consumed) => ~(e.t0 + e.d > s.s1 + s.total + Tol /\ e.d > 0)
      pollDelivered == (e.k = "Wait" /\ ~e.got /\ e.d = 0 /\ s.armed /\ s.sure /\ ~s.consumed) => ~(e.t0 > s.s1 + s.total + Tol)
      once == (e.k = "Wait" /\ e.got /\ s.sure) => ~s.consumed
  IN {n \in {"Reports", "NeverEarly", "Delivered", "DeliveredOnce"} :
        \/ n = "Reports" /\ ~(reports /\ reports2)
        \/ n = "NeverEarly" /\ ~neverEarly
        \/ n = "Delivered" /\ ~(delivered /\ pollDelivered)
        \/ n = "DeliveredOnce" /\ ~once}

NextState(e, s) ==
  CASE e.k = "Reset" -> [armed |-> TRUE, h |-> e.h, v |-> e.v, s0 |-> e.t0, s1 |-> e.t1, total |-> e.d, consumed |-> FALSE, sure |-> TRUE, run |-> e.run]
    [] e.k = "Extend" ->
         \* the timer re-arms iff the new total exceeds the time elapsed since the reset
         LET tot == s.total + e.d
             surelyRearmed == tot > e.t1 - s.s0
             surelyNot == tot <= e.t0 - s.s1
         IN [s EXCEPT !.total = tot,
                      !.consumed = IF surelyRearmed THEN FALSE ELSE @,
                      !.sure = IF surelyRearmed THEN TRUE ELSE IF surelyNot THEN @ ELSE FALSE]
    [] e.k = "Wait" -> IF e.got THEN [s EXCEPT !.consumed = TRUE] ELSE s
    [] OTHER -> s

Init == l = 1 /\ st = Fresh /\ nbad = 0
Next == /\ l <= Len(Log)
        /\ LET e == Log[l]  s == Pre(e)  B == Checks(e, s) IN
             /\ \A n \in B : Bad(e, n)
             /\ nbad' = nbad + Cardinality(B)
             /\ st' = NextState(e, s)
        /\ l' = l + 1
Spec == Init /\ [][Next]_vars
Post == PrintT(<<"TIMER-SUMMARY", Len(Log), TLCGet("stats").diameter>>) /\ TLCGet("stats").diameter = Len(Log) + 1
=============================================================================
