--------------------------- MODULE AgreementProof ---------------------------
(***************************************************************************)
(* TLAPS proof of  Spec => []Agreement  for the abstract protocol of       *)
(* AgreementAbs.tla, for every finite validator set, every Byz with        *)
(* |Byz| <= F, every set of views and blocks.  See AgreementAbs.tla for    *)
(* what the two actions stand for (the node-local guarantees OneCommit     *)
(* and Certificate).                                                       *)
(***************************************************************************)
EXTENDS AgreementAbs, TLAPS, FiniteSetTheorems

ASSUME NoWeak == Weak = "none"

LEMMA Arith == N \in Nat /\ N >= 1 /\ F \in Nat /\ M \in Nat /\ 2 * M - N > F
<1>1. N \in Nat /\ N >= 1
  <2>1. N \in Nat BY ValAssm, FS_CardinalityType DEF N
  <2>2. N # 0 BY ValAssm, FS_EmptySet DEF N
  <2> QED BY <2>1, <2>2
<1> QED BY <1>1, SMT DEF F, M

\* two quorums share an honest validator
LEMMA QuorumIntersection ==
  ASSUME NEW Q1 \in SUBSET Val, NEW Q2 \in SUBSET Val, Cardinality(Q1) >= M, Cardinality(Q2) >= M
  PROVE  \E j \in Q1 \cap Q2 : j \in Honest
<1>1. IsFiniteSet(Q1) /\ IsFiniteSet(Q2) /\ IsFiniteSet(Q1 \cup Q2) /\ IsFiniteSet(Q1 \cap Q2) /\ IsFiniteSet(Byz)
  BY ValAssm, ByzAssm, FS_Subset, FS_Union, FS_Intersection
<1>2. Cardinality(Q1 \cup Q2) = Cardinality(Q1) + Cardinality(Q2) - Cardinality(Q1 \cap Q2)
  BY <1>1, FS_Union
<1>3. Cardinality(Q1 \cup Q2) <= N
  BY ValAssm, FS_Subset DEF N
<1>4. /\ Cardinality(Q1) \in Nat /\ Cardinality(Q2) \in Nat /\ Cardinality(Q1 \cap Q2) \in Nat
      /\ Cardinality(Q1 \cup Q2) \in Nat /\ Cardinality(Byz) \in Nat
  BY <1>1, FS_CardinalityType
<1>5. Cardinality(Q1 \cap Q2) > F
  BY <1>2, <1>3, <1>4, Arith
<1>6. ~(Q1 \cap Q2 \subseteq Byz)
  <2>1. SUFFICES ASSUME Q1 \cap Q2 \subseteq Byz PROVE FALSE OBVIOUS
  <2>2. Cardinality(Q1 \cap Q2) <= Cardinality(Byz) BY <2>1, <1>1, FS_Subset
  <2> QED BY <2>2, <1>5, <1>4, ByzAssm, Arith
<1> QED BY <1>6 DEF Honest

LEMMA InvImpliesAgreement == Inv => Agreement
<1> SUFFICES ASSUME Inv, NEW i \in Honest, NEW j \in Honest, NEW b \in acc[i], NEW c \in acc[j] PROVE b = c
  BY DEF Agreement
<1>1. Chosen(b) /\ Chosen(c) BY DEF Inv
<1>2. PICK v \in View, Q1 \in SUBSET Val : Cardinality(Q1) >= M /\ \A k \in Q1 \cap Honest : <<v, b>> \in cm[k]
  BY <1>1, NoWeak DEF Chosen, Cert, Quorum
<1>3. PICK w \in View, Q2 \in SUBSET Val : Cardinality(Q2) >= M /\ \A k \in Q2 \cap Honest : <<w, c>> \in cm[k]
  BY <1>1, NoWeak DEF Chosen, Cert, Quorum
<1>4. PICK k \in Q1 \cap Q2 : k \in Honest BY <1>2, <1>3, QuorumIntersection
<1>5. <<v, b>> \in cm[k] /\ <<w, c>> \in cm[k] BY <1>2, <1>3, <1>4
<1>6. <<v, b>> = <<w, c>> BY <1>4, <1>5 DEF Inv
<1> QED BY <1>6

LEMMA InitInv == Init => Inv
  BY DEF Init, Inv, TypeOK

LEMMA NextInv == Inv /\ [Next]_vars => Inv'
<1> SUFFICES ASSUME Inv, [Next]_vars PROVE Inv' OBVIOUS
<1>1. CASE UNCHANGED vars BY <1>1 DEF Inv, TypeOK, vars, Chosen, Cert, Quorum
<1>2. ASSUME NEW i \in Honest, NEW b \in Block, NEW v \in View, Commit(i, v, b) PROVE Inv'
  <2>0. cm[i] = {} BY <1>2, NoWeak DEF Commit
  <2>1. TypeOK' BY <1>2 DEF Commit, Inv, TypeOK
  <2>2. \A k \in Honest : \A p, q \in cm'[k] : p = q BY <1>2, <2>0 DEF Commit, Inv, TypeOK
  <2>3. \A k \in Honest : cm[k] \subseteq cm'[k] BY <1>2 DEF Commit, Inv, TypeOK
  <2>4. \A d \in Block : Chosen(d) => Chosen(d)' BY <2>3 DEF Chosen, Cert, Quorum
  <2>5. \A k \in Honest : \A d \in acc'[k] : Chosen(d)' BY <2>4, <1>2 DEF Commit, Inv, TypeOK
  <2> QED BY <2>1, <2>2, <2>5 DEF Inv
<1>3. ASSUME NEW i \in Honest, NEW b \in Block, Accept(i, b) PROVE Inv'
  <2>1. TypeOK' BY <1>3 DEF Accept, Inv, TypeOK
  <2>2. \A d \in Block : Chosen(d) => Chosen(d)' BY <1>3 DEF Accept, Chosen, Cert, Quorum
  <2>3. \A k \in Honest : \A d \in acc'[k] : Chosen(d)' BY <2>2, <1>3 DEF Accept, Inv, TypeOK
  <2> QED BY <2>1, <2>3, <1>3 DEF Inv, Accept
<1> QED BY <1>1, <1>2, <1>3 DEF Next

THEOREM Safety == Spec => []Agreement
<1>1. Spec => []Inv BY InitInv, NextInv, PTL DEF Spec
<1> QED BY <1>1, InvImpliesAgreement, PTL
=============================================================================
