----------------------------- MODULE TimerImpl -----------------------------
(***************************************************************************)
(* C18 at design level: an implementation-shaped model of the default      *)
(* timer (timer/timer.go) against a discrete clock.                        *)
(*                                                                         *)
(* State = the fields of timer.Timer: height, view, s (instant of the      *)
(* latest Reset), d (reset duration plus extensions), tt (the runtime      *)
(* timer: none, or armed with a due instant and a one-slot channel that    *)
(* the Go runtime fills at some moment NOT BEFORE the due instant), ch     *)
(* (the one-slot channel used for zero durations).  Ghost fields: gen,     *)
(* the number of Resets so far, and - inside every channel value - the     *)
(* generation that armed it, so that "an expiry armed by an earlier reset  *)
(* is never delivered after a later reset" can be stated.                  *)
(*                                                                         *)
(* Actions: Reset(h, v, d), Extend(e), Read (one non-blocking receive from *)
(* C()), Fire (the runtime delivers a due expiry - at any moment from the  *)
(* due instant on: scheduling delay), Tick.  One action = one method of    *)
(* the Go type; the single-goroutine discipline of the library is assumed  *)
(* (calls do not overlap), the runtime timer is the only concurrency.      *)
(*                                                                         *)
(* Checked by TLC (exhaustive for the small constants of TimerImpl.cfg):   *)
(*   NeverEarly   an expiry is read only at an instant >= s + d            *)
(*   NoStale      ... and was armed by the latest Reset                    *)
(*   Reports      height/view are those of the latest Reset                *)
(*   ZeroNow      after Reset(.., 0) the expiry is readable at once        *)
(*   DueIsDeadline an armed runtime timer is due at s + d, or that instant *)
(*                has passed already (the                                  *)
(*                upper bound itself is scheduling: checked on real runs)  *)
(* Its state cover (every reachable state with a schedule reaching it) is  *)
(* executed on the real timer by the harness' timer driver (-script), with *)
(* one clock unit = Unit milliseconds; the log is validated against        *)
(* BundledTimer.tla as every other timer log (measured stamps, not the     *)
(* model's instants, decide - so machine load cannot raise an alarm).      *)
(***************************************************************************)
EXTENDS Integers, Sequences, FiniteSets, TLC, Json

CONSTANTS MaxT,      \* clock bound
          Durs,      \* reset durations (0 allowed)
          Exts,      \* extension durations
          MaxOps,    \* bound on the number of Reset/Extend/Read operations of a behaviour
          Variant,   \* "impl" = as the code is; "extend_arg" / "zero_keeps_d" / "no_drain" = known-bad variants (must violate a property)
          Emit, CoverMod

NoTT == [k |-> "none"]
Empty == [k |-> "empty"]

VARIABLES now, height, view, s, d, tt, ch, gen, lastH, lastV, got, ops, lastOp, hist
vars == <<now, height, view, s, d, tt, ch, gen, lastH, lastV, got, ops, lastOp, hist>>

Init == /\ now = 0 /\ height = 0 /\ view = 0 /\ s = 0 /\ d = 0 /\ tt = NoTT /\ ch = Empty
        /\ gen = 0 /\ lastH = 0 /\ lastV = 0 /\ got = [k |-> "none"] /\ ops = 0 /\ lastOp = "none" /\ hist = <<>>

Log(e) == hist' = (IF Emit THEN Append(hist, e) ELSE <<>>) /\ lastOp' = e.k
Stopped(t) == NoTT      \* stop(): tt.Stop(); tt = nil - the old channel (and whatever it holds) is dropped with the object

Reset(hh, vv, dd) ==
  /\ ops < MaxOps /\ ops' = ops + 1
  /\ s' = now /\ height' = hh /\ view' = vv /\ gen' = gen + 1 /\ lastH' = hh /\ lastV' = vv
  /\ d' = IF Variant = "zero_keeps_d" /\ dd = 0 THEN d ELSE dd
  /\ IF dd # 0
     THEN /\ tt' = [k |-> "t", due |-> now + dd, full |-> FALSE, fired |-> FALSE, g |-> gen + 1]
          /\ ch' = ch
     ELSE /\ tt' = NoTT
          /\ ch' = IF Variant = "no_drain" /\ ch.k = "full" THEN ch ELSE [k |-> "full", g |-> gen + 1]   \* drain(ch); ch <- s
  /\ got' = [k |-> "none"] /\ UNCHANGED now
  /\ Log([k |-> "Reset", h |-> hh, v |-> vv, d |-> dd, at |-> now])

Extend(e) ==
  /\ ops < MaxOps /\ ops' = ops + 1 /\ gen > 0
  /\ d' = d + e
  /\ LET elapsed == now - s
         cmp == IF Variant = "extend_arg" THEN e ELSE d + e IN
       IF cmp > elapsed
       THEN tt' = [k |-> "t", due |-> now + (d + e - elapsed), full |-> FALSE, fired |-> FALSE, g |-> gen]
       ELSE tt' = tt
  /\ got' = [k |-> "none"] /\ UNCHANGED <<now, height, view, s, ch, gen, lastH, lastV>>
  /\ Log([k |-> "Extend", d |-> e, at |-> now])

\* one non-blocking receive from C(): tt.C if a runtime timer exists, else ch
Read ==
  /\ ops < MaxOps /\ ops' = ops + 1 /\ gen > 0
  /\ IF tt.k = "t"
     THEN /\ got' = IF tt.full THEN [k |-> "exp", g |-> tt.g, at |-> now] ELSE [k |-> "none"]
          /\ tt' = [tt EXCEPT !.full = FALSE] /\ ch' = ch
     ELSE /\ got' = IF ch.k = "full" THEN [k |-> "exp", g |-> ch.g, at |-> now] ELSE [k |-> "none"]
          /\ ch' = Empty /\ tt' = tt
  /\ UNCHANGED <<now, height, view, s, d, gen, lastH, lastV>>
  /\ Log([k |-> "Wait", d |-> 0, at |-> now])

\* the Go runtime: a due, unfired timer puts its expiry into its channel - not before the due instant, possibly later
Fire == /\ tt.k = "t" /\ ~tt.fired /\ now >= tt.due
        /\ tt' = [tt EXCEPT !.full = TRUE, !.fired = TRUE]
        /\ got' = [k |-> "none"]
        /\ UNCHANGED <<now, height, view, s, d, ch, gen, lastH, lastV, ops, lastOp, hist>>
Tick == /\ now < MaxT /\ now' = now + 1 /\ got' = [k |-> "none"]
        /\ UNCHANGED <<height, view, s, d, tt, ch, gen, lastH, lastV, ops>>
        /\ Log([k |-> "Sleep", d |-> 1, at |-> now])

\* a Reset names a new epoch or - as the library does whenever it re-arms the timer inside a view - the SAME height and view again
Epochs == IF gen = 0 THEN {<<1, 0>>} ELSE {<<height, view>>, <<height + 1, 0>>}
Next == \/ \E dd \in Durs : \E hv \in Epochs : Reset(hv[1], hv[2], dd)
        \/ \E e \in Exts : Extend(e)
        \/ Read \/ Fire \/ Tick
Spec == Init /\ [][Next]_vars

View == <<now, height, view, s, d, tt, ch, gen, lastH, lastV, got, ops, lastOp>>

NeverEarly == got.k = "exp" => got.at >= s + d
NoStale == got.k = "exp" => got.g = gen
Reports == gen > 0 => (height = lastH /\ view = lastV)
\* right after Reset(.., 0) (no operation in between) the expiry is there to be read
ZeroNow == (gen > 0 /\ tt.k = "none" /\ lastOp = "Reset") => ch.k = "full" /\ ch.g = gen
\* the deadline the runtime timer is armed for is exactly s + d (what "within scheduling tolerance after that deadline" refers to)
DueIsDeadline == (tt.k = "t" /\ ~tt.fired) => (tt.due = s + d \/ (tt.due <= s + d /\ s + d <= now))

\* an expiry is still to be had at the end of the schedule: the executor ends with a blocking read (upper bound of C18)
Pending == IF tt.k = "t" THEN (tt.full \/ ~tt.fired) ELSE ch.k = "full"
EmitCover == (Emit /\ (CoverMod = 1 \/ TLCGet("generated") % CoverMod = 0)) => PrintT(<<"COVER", ToJson(hist), Pending>>)
=============================================================================
