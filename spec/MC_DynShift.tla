---------------------------- MODULE MC_DynShift ----------------------------
(***************************************************************************)
(* C14 at design level on the timed single-validator network of MC_Dyn:    *)
(* in every reachable state, every call the next-state relation can make   *)
(* (timer expiry, new-transaction notification, Reset) has the same        *)
(* outcomes against a world whose clock and timestamps read D more - same  *)
(* effects, same timer durations, absolute instants shifted by D           *)
(* (spec/ShiftInv.tla).                                                    *)
(***************************************************************************)
EXTENDS MC_Dyn
SI == INSTANCE ShiftInv
Deltas == {1000, 999990000}
ShiftInvariant ==
  \A D \in Deltas :
     /\ (~x.blockDone /\ x.timer.k = "t") => SI!ShiftInvariantAt(x, "OnTimeout", [h |-> x.timer.h, v |-> x.timer.v], EnvOf, D)
     /\ SI!ShiftInvariantAt(x, "OnNewTransaction", [none |-> 0], [EnvOf EXCEPT !.pool = <<"tA">>], D)
     /\ (x.blockDone /\ x.h < H + Heights) => SI!ShiftInvariantAt(x, "Reset", [ts |-> x.ts], [EnvOf EXCEPT !.ledger = LedgerAt(x.h + 1, x.ts)], D)
=============================================================================
