------------------------------ MODULE DbftNode ------------------------------
(***************************************************************************)
(* Implementation-shaped specification of one dBFT node: a transcription,  *)
(* function by function, of dbft.go / check.go / send.go / context.go /    *)
(* helpers.go of nspcc-dev/dbft (tree after the fix: commits listed in     *)
(* /verif/known_findings.json).                                            *)
(*                                                                         *)
(* A node state is a record `x` whose protocol fields have exactly the     *)
(* shape the harness logs (tables as sequences indexed validator + 1,      *)
(* payloads and slots as records), so the same operators serve             *)
(*   - MC_Node / MC_Net : TLC explores the transition relation (design),   *)
(*   - DbftConform      : for a logged real call, TLC checks that the      *)
(*                        logged (post state, effect callbacks) is one of  *)
(*                        the outcomes of Api(pre, call) (conformance).    *)
(*                                                                         *)
(* One public API call is one operator (Start, Reset, OnReceive,           *)
(* OnTimeout, OnTransaction, OnNewTransaction) returning the SET of        *)
(* possible results: the Go code iterates over maps when it replays        *)
(* cached payloads, so one call has several legal outcomes.  Everything    *)
(* the application answers during the call (clock, ledger, pool, known     *)
(* transactions, verification results, callback errors, the random nonce,  *)
(* the order in which a recovery message hands out its payloads) is in     *)
(* x.env.  Effect callbacks are appended to x.out in call order.           *)
(*                                                                         *)
(* Deliberate deviations of the code from the protocol are named switches: *)
(*   DevEarlyCommitUnverified (known finding KF-1, TRUE = as the code is). *)
(* Weaken is a set of names, each disabling one guard of the code; with    *)
(* Weaken = {} the model is faithful.  Weakened variants are used only to  *)
(* generate attack schedules that are then replayed on the real code.      *)
(***************************************************************************)
EXTENDS Integers, Sequences, FiniteSets, TLC

CONSTANTS DevEarlyCommitUnverified, Weaken

W(name) == name \in Weaken

None == [k |-> "none"]
NoTimer == [k |-> "none", h |-> 0, v |-> 0, due |-> 0, d |-> 0, ext |-> 0]
Range(s) == {s[i] : i \in 1..Len(s)}
Max(a, b) == IF a >= b THEN a ELSE b
Pow2(k) == 2 ^ k
TruncDiv(a, b) == IF a >= 0 THEN a \div b ELSE -((-a) \div b)   \* Go integer division truncates toward zero
AllNone(n) == [i \in 1..n |-> None]

\* reason codes of dbft.ChangeViewReason
RTimeout == 0
RChangeAgreement == 1
RTxNotFound == 2
RTxInvalid == 4
RBlockRejectedByPolicy == 5

-----------------------------------------------------------------------------
\* Context helpers (context.go)

FaultBound(n) == IF W("F_is_N_div_3") THEN n \div 3 ELSE (n - 1) \div 3
F(x) == FaultBound(x.n)
M(x) == x.n - F(x)
PrimaryOf(h, v, n) == IF W("primary_h_plus_v") THEN (h + v) % n ELSE (h - v) % n
IsPrimary(x) == x.me = x.primary
IsBackup(x) == x.me >= 0 /\ ~IsPrimary(x)
WatchOnly(x) == x.me < 0 \/ x.cfg.watch
ReqRcvd(x) == x.prep[x.primary + 1].k # "none"
ResponseSent(x) == ~WatchOnly(x) /\ x.prep[x.me + 1].k # "none"
PreCommitSent(x) == ~WatchOnly(x) /\ x.pc[x.me + 1].k # "none"
CommitSent(x) == ~WatchOnly(x) /\ x.cm[x.me + 1].k # "none"
Locked(x) == CommitSent(x) \/ PreCommitSent(x)
ViewChanging(x) == ~WatchOnly(x) /\ x.cv[x.me + 1].k = "cv" /\ x.cv[x.me + 1].nv > x.v
CountCommitted(x) == Cardinality({i \in 1..x.n : x.cm[i].k # "none" \/ x.pc[i].k # "none"})
CountFailed(x) == Cardinality({i \in 1..x.n : /\ x.cm[i].k = "none" /\ x.pc[i].k = "none"
                                              /\ (x.seen[i].k = "none" \/ x.seen[i].h < x.h \/ x.seen[i].v < x.v)})
MoreThanF(x) == CountCommitted(x) + CountFailed(x) > F(x)
NotAccepting(x) == ViewChanging(x) /\ ~MoreThanF(x)
HasAllTx(x) == Len(x.txs) = Cardinality(x.have)
CtxBlock(x) == [h |-> x.h, prev |-> x.prev, ts |-> x.ts, nonce |-> x.nonce, txs |-> x.txs]
MaxTpbOn(x) == x.cfg.maxTpb > 0

Emit(x, c) == [x EXCEPT !.out = Append(@, c)]
Bcast(x, m) == Emit(x, [k |-> "Broadcast", m |-> m])
MyFrom(x) == IF x.me >= 0 THEN x.me ELSE 65535

\* changeTimer / extendTimer (dbft.go)
ChangeTimer(x, d) ==
  Emit([x EXCEPT !.timer = [k |-> "t", h |-> x.h, v |-> x.v, due |-> x.env.now + d, d |-> d, ext |-> 0]],
       [k |-> "TimerReset", h |-> x.h, v |-> x.v, d |-> d])
ExtendTimer(x, cnt) ==
  IF ~CommitSent(x) /\ (~x.amev \/ ~PreCommitSent(x)) /\ ~ViewChanging(x)
  THEN LET d == (cnt * x.tpb) \div M(x)
       IN Emit(IF x.timer.k = "t" THEN [x EXCEPT !.timer.due = @ + d, !.timer.ext = @ + d] ELSE x,
               [k |-> "TimerExtend", d |-> d])
  ELSE x

-----------------------------------------------------------------------------
\* Slots <-> payloads

ReqHashOf(m) == [h |-> m.h, v |-> m.v, from |-> m.from, ts |-> m.ts, nonce |-> m.nonce, txs |-> m.txs]
PrepPayload(x, i) ==
  LET s == x.prep[i] IN
    IF s.k = "req" THEN [t |-> "PrepareRequest", h |-> x.h, v |-> s.v, from |-> i - 1, ts |-> s.ph.ts, nonce |-> s.ph.nonce, txs |-> s.ph.txs]
    ELSE [t |-> "PrepareResponse", h |-> x.h, v |-> s.v, from |-> i - 1, ph |-> s.ph]
CvPayload(x, s, i) == [t |-> "ChangeView", h |-> x.h, v |-> s.v, from |-> i - 1, ts |-> s.ts, nv |-> s.nv, reason |-> s.reason]
SigPayload(x, s, i, t) == [t |-> t, h |-> x.h, v |-> s.v, from |-> i - 1, s |-> s.s, b |-> s.b]
SeqOf(S, Fn(_)) ==   \* the elements Fn(i), i \in S, in increasing order of i
  LET RECURSIVE go(_, _)
      go(T, acc) == IF T = {} THEN acc
                    ELSE LET i == CHOOSE j \in T : \A k \in T : j <= k IN go(T \ {i}, Append(acc, Fn(i)))
  IN go(S, <<>>)

-----------------------------------------------------------------------------
\* Headers and blocks (context.go MakeHeader / MakePreHeader / CreateBlock / CreatePreBlock)

\* returns [x, ok]: ok iff a header is available afterwards
MakeHeader(x) ==
  IF x.hdr THEN [x |-> x, ok |-> TRUE]
  ELSE IF ~ReqRcvd(x) THEN [x |-> x, ok |-> FALSE]
  ELSE IF x.amev /\ ~x.preDone /\ ~W("header_before_preblock") THEN [x |-> x, ok |-> FALSE]
  ELSE IF x.env.nilBlock THEN [x |-> x, ok |-> FALSE]
  ELSE [x |-> [x EXCEPT !.hdr = TRUE], ok |-> TRUE]
MakePreHeader(x) ==
  IF x.preHdr THEN [x |-> x, ok |-> TRUE]
  ELSE IF ~ReqRcvd(x) THEN [x |-> x, ok |-> FALSE]
  ELSE [x |-> [x EXCEPT !.preHdr = TRUE], ok |-> TRUE]
CreateBlock(x) ==
  IF x.blk THEN [x |-> x, ok |-> TRUE]
  ELSE LET r == MakeHeader(x) IN IF r.ok THEN [x |-> [r.x EXCEPT !.blk = TRUE], ok |-> TRUE] ELSE r
CreatePreBlock(x) ==
  IF x.preBlk THEN [x |-> x, ok |-> TRUE]
  ELSE LET r == MakePreHeader(x) IN IF r.ok THEN [x |-> [r.x EXCEPT !.preBlk = TRUE], ok |-> TRUE] ELSE r

SigOk(x, i, s) == W("no_sig_check_commit") \/ (s.s = x.vals[i] /\ s.b = CtxBlock(x))

\* verifyCommitPayloadsAgainstHeader (dbft.go)
VerifyCommitsAgainstHeader(x) ==
  IF ~\E i \in 1..x.n : x.cm[i].k = "cm" /\ x.cm[i].v = x.v THEN x
  ELSE LET r == MakeHeader(x) IN
         IF ~r.ok THEN r.x
         ELSE [r.x EXCEPT !.cm = [i \in 1..x.n |-> IF @[i].k = "cm" /\ @[i].v = x.v /\ ~SigOk(x, i, @[i]) THEN None ELSE @[i]]]
\* verifyPreCommitPayloadsAgainstPreBlock (dbft.go)
VerifyPreCommitsAgainstPreBlock(x) ==
  IF ~HasAllTx(x) \/ ~\E i \in 1..x.n : x.pc[i].k = "pc" /\ x.pc[i].v = x.v THEN x
  ELSE LET r == CreatePreBlock(x) IN
         IF ~r.ok THEN r.x
         ELSE [r.x EXCEPT !.pc = [i \in 1..x.n |-> IF @[i].k = "pc" /\ @[i].v = x.v /\ ~SigOk(x, i, @[i]) THEN None ELSE @[i]]]

\* updateExistingPayloads (dbft.go); `stored` tells whether the request is already in its slot
UpdateExistingPayloads(x, ph) ==
  LET x1 == [x EXCEPT !.prep = [i \in 1..x.n |-> IF @[i].k = "resp" /\ @[i].ph # ph /\ ~W("no_resp_hash_check") THEN None ELSE @[i]]]
  IN IF x1.amev THEN VerifyPreCommitsAgainstPreBlock(x1) ELSE VerifyCommitsAgainstHeader(x1)

\* processMissingTx (dbft.go)
ProcessMissingTx(x) ==
  LET RECURSIVE go(_, _)
      go(y, i) == IF i > Len(y.txs) THEN y
                  ELSE LET t == y.txs[i] IN
                         IF t \in y.have THEN go(y, i + 1)
                         ELSE IF t \in y.env.known THEN go([y EXCEPT !.have = @ \cup {t}], i + 1)
                         ELSE go([y EXCEPT !.missing = Append(@, t)], i + 1)
      y1 == go(x, 1)
  IN IF y1.missing # <<>> THEN Emit(y1, [k |-> "RequestTx", hashes |-> y1.missing]) ELSE y1

-----------------------------------------------------------------------------
\* send.go: payload construction

MakeChangeView(x, reason) ==   \* stores the own request, returns [x, m]
  LET s == [k |-> "cv", v |-> x.v, nv |-> x.v + 1, ts |-> x.env.now, reason |-> reason]
  IN [x |-> [x EXCEPT !.cv[x.me + 1] = s], m |-> CvPayload(x, s, x.me + 1)]

MakeRecoveryMessage(x) ==
  [t |-> "RecoveryMessage", h |-> x.h, v |-> x.v, from |-> MyFrom(x),
   prep |-> SeqOf({i \in 1..x.n : x.prep[i].k # "none"}, LAMBDA i : PrepPayload(x, i)),
   cvs |-> SeqOf({i \in 1..x.n : x.lastcv[i].k # "none"}, LAMBDA i : CvPayload(x, x.lastcv[i], i)),
   pcs |-> IF PreCommitSent(x) THEN SeqOf({i \in 1..x.n : x.pc[i].k # "none"}, LAMBDA i : SigPayload(x, x.pc[i], i, "PreCommit")) ELSE <<>>,
   cms |-> IF CommitSent(x) THEN SeqOf({i \in 1..x.n : x.cm[i].k # "none"}, LAMBDA i : SigPayload(x, x.cm[i], i, "Commit")) ELSE <<>>]
SendRecoveryMessage(x) == Bcast(x, MakeRecoveryMessage(x))

SendPrepareResponse(x) ==
  LET s == [k |-> "resp", v |-> x.v, ph |-> x.prep[x.primary + 1].ph]
      x1 == [x EXCEPT !.prep[x.me + 1] = s]
  IN Bcast(Emit(x1, [k |-> "StopTxFlow"]), PrepPayload(x1, x.me + 1))

SendCommit(x) ==
  IF x.cm[x.me + 1].k # "none" /\ ~W("resend_builds_new_commit")
  THEN Bcast(x, SigPayload(x, x.cm[x.me + 1], x.me + 1, "Commit"))
  ELSE LET r == MakeHeader(x) IN
         IF ~r.ok THEN r.x
         ELSE LET s == [k |-> "cm", v |-> x.v, s |-> x.vals[x.me + 1], b |-> CtxBlock(x)]
                  x1 == [r.x EXCEPT !.cm[x.me + 1] = s]
              IN Bcast(x1, SigPayload(x1, s, x.me + 1, "Commit"))
SendPreCommit(x) ==
  IF x.pc[x.me + 1].k # "none"
  THEN Bcast(x, SigPayload(x, x.pc[x.me + 1], x.me + 1, "PreCommit"))
  ELSE LET r == CreatePreBlock(x) IN
         IF ~r.ok THEN r.x
         ELSE LET s == [k |-> "pc", v |-> x.v, s |-> x.vals[x.me + 1], b |-> CtxBlock(x)]
                  x1 == [r.x EXCEPT !.pc[x.me + 1] = s]
              IN Bcast(x1, SigPayload(x1, s, x.me + 1, "PreCommit"))

-----------------------------------------------------------------------------
\* check.go

CheckCommit(x) ==
  IF ~HasAllTx(x) THEN x
  ELSE IF Cardinality({i \in 1..x.n : x.cm[i].k = "cm" /\ (x.cm[i].v = x.v \/ W("no_view_filter_commit"))})
            < (IF W("commit_M_minus_1") THEN M(x) - 1 ELSE M(x)) THEN x
  ELSE LET r == CreateBlock(x) IN
         IF ~r.ok THEN r.x
         ELSE IF x.amev /\ r.x.fb > 0
              THEN Emit([r.x EXCEPT !.fb = @ - 1], [k |-> "ProcessBlock", block |-> CtxBlock(x), ok |-> FALSE])
              ELSE Emit([r.x EXCEPT !.blockDone = TRUE], [k |-> "ProcessBlock", block |-> CtxBlock(x), ok |-> TRUE])

CheckPreCommit(x0) ==
  IF ~HasAllTx(x0) THEN x0
  ELSE LET x == IF W("precommits_unverified_at_count") THEN x0 ELSE VerifyPreCommitsAgainstPreBlock(x0) IN
  IF Cardinality({i \in 1..x.n : x.pc[i].k = "pc" /\ x.pc[i].v = x.v}) < M(x) THEN x
  ELSE LET r == CreatePreBlock(x)   \* d.preBlock = d.CreatePreBlock()
           x1 == r.x
           x2 == IF x1.preDone /\ ~W("preblock_twice") THEN x1
                 ELSE IF x1.fp > 0
                      THEN Emit([x1 EXCEPT !.fp = @ - 1], [k |-> "ProcessPreBlock", block |-> CtxBlock(x), ok |-> FALSE])
                      ELSE Emit([x1 EXCEPT !.preDone = TRUE], [k |-> "ProcessPreBlock", block |-> CtxBlock(x), ok |-> TRUE])
       IN IF ~x2.preDone THEN x2
          ELSE LET x3 == VerifyCommitsAgainstHeader(x2)
               IN IF PreCommitSent(x3)
                  THEN CheckCommit(ChangeTimer(SendCommit(x3), x3.tpb))
                  ELSE x3

CheckPrepare(x) ==
  LET x1 == IF x.lbIdx # x.h \/ x.lbView # x.v
            THEN [x EXCEPT !.lbTime = x.env.now, !.lbIdx = x.h, !.lbView = x.v] ELSE x
  IN IF ~HasAllTx(x1) THEN x1
     ELSE LET cnt == Cardinality({i \in 1..x.n : x1.prep[i].k # "none" /\ (x1.prep[i].v = x1.v \/ W("no_view_filter_prepare"))})
              hasReq == \E i \in 1..x.n : x1.prep[i].k = "req"
          IN IF hasReq /\ cnt >= (IF W("prepare_M_minus_1") THEN M(x1) - 1 ELSE M(x1))
             THEN IF x1.amev /\ ~W("no_precommit_before_commit")
                  THEN CheckPreCommit(ChangeTimer(SendPreCommit(x1), x1.tpb))
                  ELSE CheckCommit(ChangeTimer(SendCommit(x1), x1.tpb))
             ELSE x1

-----------------------------------------------------------------------------
\* Cache (helpers.go): a set of [h, kind, from, p]

CacheKind(t) == CASE t \in {"PrepareRequest", "PrepareResponse"} -> "prepare"
                  [] t = "ChangeView" -> "chViews"
                  [] t = "PreCommit" -> "preCommit"
                  [] t = "Commit" -> "commit"
                  [] OTHER -> "none"
CacheAdd(x, m) ==
  LET kd == CacheKind(m.t) IN
    IF kd = "none" \/ W("no_future_cache") THEN x
    ELSE [x EXCEPT !.cache = {c \in @ : ~(c.h = m.h /\ c.kind = kd /\ c.from = m.from)}
                                \cup {[h |-> m.h, kind |-> kd, from |-> m.from, p |-> m]}]

NilTypes == {"NilChangeView", "NilPrepareRequest", "NilPrepareResponse", "NilCommit", "NilPreCommit", "NilRecoveryRequest", "NilRecoveryMessage"}
Bind(S, Fn(_)) == UNION {Fn(s) : s \in S}
RECURSIVE Orders(_)
Orders(S) == IF S = {} THEN {<<>>} ELSE UNION {{<<e>> \o o : o \in Orders(S \ {e})} : e \in S}

-----------------------------------------------------------------------------
\* The mutually recursive part: OnReceive -> handlers -> checkChangeView ->
\* initializeConsensus -> OnReceive (replay of cached payloads)

RECURSIVE OnReceive(_, _), InitializeConsensus(_, _, _), CheckChangeView(_, _), SendChangeView(_, _),
          ReplaySeq(_, _), OnRecoveryMessage(_, _), SendRecoveryRequest(_), CreateAndCheckBlock(_), OnAllTransactions(_)

ReplaySeq(S, seq) == IF seq = <<>> THEN S ELSE ReplaySeq(Bind(S, LAMBDA s : OnReceive(s, Head(seq))), Tail(seq))
ReplayAnyOrder(S, P) == UNION {ReplaySeq(S, o) : o \in Orders(P)}

\* context.go reset
ResetCtx(x, view, ts) ==
  LET n == IF view = 0 THEN x.env.ledger.nvals ELSE x.n
      h == IF view = 0 THEN x.env.ledger.height + 1 ELSE x.h
      me == IF view = 0 THEN x.env.ledger.myIndex ELSE x.me
      y == IF view = 0
           THEN [x EXCEPT !.prev = x.env.ledger.tip, !.h = h, !.vals = x.env.ledger.vals, !.n = n,
                          !.tpb = x.cfg.tpb, !.maxTpb = IF x.cfg.maxTpb > 0 THEN x.cfg.maxTpb ELSE @,
                          !.amev = x.cfg.amevH >= 0 /\ x.cfg.amevH <= h,
                          !.lastcv = AllNone(n), !.seen = AllNone(n), !.blockDone = FALSE, !.preDone = FALSE,
                          !.pc = IF W("reset_keeps_commits") /\ Len(@) = n THEN @ ELSE AllNone(n),
                          !.cm = IF W("reset_keeps_commits") /\ Len(@) = n THEN @ ELSE AllNone(n)]
           ELSE [x EXCEPT !.lastcv = [i \in 1..n |-> IF x.cv[i].k = "cv" /\ x.cv[i].nv >= view THEN x.cv[i] ELSE None]]
      z == [y EXCEPT !.me = me, !.watch = me < 0 \/ x.cfg.watch, !.sentAt = -1, !.lbTs = ts, !.sub = FALSE,
                     !.blk = FALSE, !.preBlk = FALSE, !.hdr = FALSE, !.preHdr = FALSE,
                     !.cv = AllNone(n), !.prep = AllNone(n), !.have = {}, !.txs = <<>>, !.missing = <<>>,
                     !.primary = PrimaryOf(h, view, n), !.v = view, !.started = TRUE]
  IN IF me >= 0 THEN [z EXCEPT !.seen[me + 1] = [k |-> "hv", h |-> h, v |-> view]] ELSE z

\* dbft.go initializeConsensus
InitializeConsensus(x, view, ts) ==
  LET x1 == Emit(ResetCtx(x, view, ts), [k |-> "StopTxFlow"])
      inbox == {c \in x1.cache : c.h = x1.h}
      x2 == [x1 EXCEPT !.cache = {c \in @ : c.h > x1.h}]
      P(kind) == {c.p : c \in {d \in inbox : d.kind = kind}}
      S == ReplayAnyOrder(ReplayAnyOrder(ReplayAnyOrder(ReplayAnyOrder({x2}, P("prepare")), P("chViews")), P("preCommit")), P("commit"))
      Arm(s) ==
        IF WatchOnly(s) THEN s
        ELSE LET t0 == IF IsPrimary(s) /\ ~s.rec THEN (IF view = 0 THEN s.tpb ELSE 0) ELSE s.tpb * Pow2(s.v + 1)
                 t1 == IF s.lbIdx + 1 = s.h
                       THEN (IF s.lbTime < 0 THEN 0 ELSE Max(0, t0 - (s.env.now - s.lbTime) - (s.rttAvg \div 2)))
                       ELSE t0
             IN IF W("no_rearm_init") THEN s ELSE ChangeTimer(s, t1)
  IN {Arm(s) : s \in S}

\* check.go checkChangeView
CheckChangeView(x, view) ==
  IF x.v >= view THEN {x}
  ELSE IF Cardinality({i \in 1..x.n : x.cv[i].k = "cv" /\ x.cv[i].nv >= view}) < (IF W("cv_M_minus_1") THEN M(x) - 1 ELSE M(x)) THEN {x}
  ELSE LET x1 == IF ~WatchOnly(x) /\ x.cv[x.me + 1].k = "cv" /\ x.cv[x.me + 1].nv < view
                 THEN LET r == MakeChangeView(x, RChangeAgreement) IN Bcast(r.x, r.m)
                 ELSE x
       IN InitializeConsensus(x1, view, x1.lbTs)

\* send.go sendChangeView
SendChangeView(x, reason) ==
  IF WatchOnly(x) THEN {x}
  ELSE LET nv == x.v + 1
           x1 == IF W("no_rearm_cv") THEN x ELSE ChangeTimer(x, x.tpb * Pow2(nv + 1))
       IN IF reason = RTimeout /\ CountCommitted(x1) + CountFailed(x1) > F(x1)
          THEN SendRecoveryRequest(x1)
          ELSE LET rs == IF ~HasAllTx(x1) /\ reason = RTimeout THEN RTxNotFound ELSE reason
                   r == MakeChangeView(x1, rs)
               IN CheckChangeView(Bcast(Emit(r.x, [k |-> "StopTxFlow"]), r.m), nv)

\* createAndCheckBlock: set of [x, ok]
CreateAndCheckBlock(x) ==
  LET r == IF x.amev THEN CreatePreBlock(x) ELSE CreateBlock(x)
      ok == r.ok /\ (Range(x.txs) \cap x.env.bad = {})
  IN IF ok \/ W("respond_without_verify") THEN {[x |-> r.x, ok |-> TRUE]}
     ELSE {[x |-> y, ok |-> FALSE] : y \in SendChangeView(r.x, RTxInvalid)}

\* dbft.go onAllTransactions (tail of addTransaction)
OnAllTransactions(x) ==
  IF IsPrimary(x) \/ WatchOnly(x) THEN {x}
  ELSE Bind(CreateAndCheckBlock(x),
            LAMBDA r : IF ~r.ok THEN {r.x}
                       ELSE {CheckPrepare(SendPrepareResponse(ExtendTimer(VerifyPreCommitsAgainstPreBlock(r.x), 2)))})

\* send.go sendRecoveryRequest
SendRecoveryRequest(x) ==
  LET S == IF ReqRcvd(x) /\ ~HasAllTx(x)
           THEN (LET y == ProcessMissingTx(x) IN IF HasAllTx(y) /\ ~W("no_answer_after_rerequest") THEN OnAllTransactions(y) ELSE {y})
           ELSE {x}
  IN {IF s.blockDone THEN s   \* the block was accepted while answering: nothing to recover
      ELSE Bcast(s, [t |-> "RecoveryRequest", h |-> s.h, v |-> s.v, from |-> MyFrom(s), ts |-> s.env.now]) : s \in S}

\* dbft.go onPrepareRequest
OnPrepareRequest(x, m) ==
  IF ReqRcvd(x) THEN {x}
  ELSE IF x.v # m.v THEN {x}
  ELSE IF m.from # PrimaryOf(x.h, x.v, x.n) /\ ~W("no_primary_check") THEN {x}
  ELSE IF m \in x.env.rejects THEN SendChangeView(x, RBlockRejectedByPolicy)
  ELSE LET x1 == ExtendTimer(x, 2)
           x2 == ProcessMissingTx([x1 EXCEPT !.ts = m.ts, !.nonce = m.nonce, !.txs = m.txs])
           ph == ReqHashOf(m)
           slot == [k |-> "req", v |-> m.v, ph |-> ph]
           \* the code validates existing payloads BEFORE storing the request: no header can be built,
           \* commits received earlier are not checked (KF-1)
           x3 == IF DevEarlyCommitUnverified
                 THEN [UpdateExistingPayloads(x2, ph) EXCEPT !.prep[m.from + 1] = slot]
                 ELSE UpdateExistingPayloads([x2 EXCEPT !.prep[m.from + 1] = slot], ph)
           x4 == IF x3.amev THEN VerifyPreCommitsAgainstPreBlock(x3) ELSE x3
       IN IF ~HasAllTx(x4) /\ ~W("respond_without_txs") THEN {x4}
          ELSE Bind(CreateAndCheckBlock(x4),
                    LAMBDA r : IF ~r.ok \/ WatchOnly(r.x) THEN {r.x}
                               ELSE {CheckPrepare(IF IsPrimary(r.x) THEN r.x ELSE SendPrepareResponse(r.x))})

\* dbft.go onPrepareResponse
OnPrepareResponse(x, m) ==
  IF x.v # m.v THEN {x}
  ELSE IF m.from = PrimaryOf(x.h, x.v, x.n) THEN {x}
  ELSE IF x.prep[m.from + 1].k # "none" \/ NotAccepting(x) THEN {x}
  ELSE IF m \in x.env.rejects THEN {x}
  ELSE LET x1 == [x EXCEPT !.prep[m.from + 1] = [k |-> "resp", v |-> m.v, ph |-> m.ph]]
       IN IF ReqRcvd(x1) /\ x1.prep[x1.primary + 1].ph # m.ph /\ ~W("no_resp_hash_check")
          THEN {[x1 EXCEPT !.prep[m.from + 1] = None]}
          ELSE LET x2 == IF IsPrimary(x1) /\ x1.sentAt >= 0 /\ ~x1.rec
                         THEN \* rtt.addTime(Timer.Now() - prepareSentTime): time only through the injected timer
                              LET t == x1.env.now - x1.sentAt
                                  tt == IF x1.rttOld # 0 /\ t > 2 * x1.rttOld THEN 2 * x1.rttOld ELSE t
                              IN [x1 EXCEPT !.rttAvg = Max(0, @ + TruncDiv(tt - x1.rttOld, 70)), !.rttOld = x1.env.rttOldNext]
                         ELSE x1
                   x3 == ExtendTimer(x2, 2)
               IN IF ~WatchOnly(x3) /\ ~CommitSent(x3) /\ (~x3.amev \/ ~PreCommitSent(x3)) /\ ReqRcvd(x3)
                  THEN {CheckPrepare(x3)} ELSE {x3}

\* dbft.go onRecoveryRequest
OnRecoveryRequest(x, m) ==
  IF WatchOnly(x) THEN {x}
  ELSE IF ~CommitSent(x) /\ (~x.amev \/ ~PreCommitSent(x)) /\ (x.me - m.from + x.n - 1) % x.n > F(x) THEN {x}
  ELSE IF W("no_recovery_reply") THEN {x}
  ELSE {SendRecoveryMessage(x)}

\* dbft.go onChangeView
OnChangeView(x, m) ==
  IF m.nv <= x.v THEN OnRecoveryRequest(x, m)
  ELSE IF Locked(x) /\ ~W("no_commit_lock_cv") THEN {SendRecoveryMessage(x)}
  ELSE IF x.cv[m.from + 1].k = "cv" /\ m.nv < x.cv[m.from + 1].nv THEN {x}
  ELSE CheckChangeView([x EXCEPT !.cv[m.from + 1] = [k |-> "cv", v |-> m.v, nv |-> m.nv, ts |-> m.ts, reason |-> m.reason]], m.nv)

\* dbft.go onCommit
OnCommit(x, m) ==
  IF x.cm[m.from + 1].k # "none" THEN {x}
  ELSE LET s == [k |-> "cm", v |-> m.v, s |-> m.s, b |-> m.b]
           x1 == [x EXCEPT !.cm[m.from + 1] = s]
       IN IF x.v # m.v THEN {x1}
          ELSE IF m \in x.env.rejects THEN {x}
          ELSE LET x2 == ExtendTimer(x1, 4)
                   r == MakeHeader(x2)
               IN IF ~r.ok THEN {r.x}
                  ELSE IF SigOk(r.x, m.from + 1, s) THEN {CheckCommit(r.x)}
                  ELSE {[r.x EXCEPT !.cm[m.from + 1] = None]}

\* dbft.go onPreCommit
OnPreCommit(x, m) ==
  IF x.pc[m.from + 1].k # "none" THEN {x}
  ELSE LET s == [k |-> "pc", v |-> m.v, s |-> m.s, b |-> m.b]
           x1 == [x EXCEPT !.pc[m.from + 1] = s]
       IN IF x.v # m.v THEN {x1}
          ELSE IF m \in x.env.rejects THEN {x}
          ELSE LET x2 == ExtendTimer(x1, 4)
               IN IF ~HasAllTx(x2) THEN {x2}
                  ELSE LET r == CreatePreBlock(x2)
                       IN IF ~r.ok THEN {r.x}
                          ELSE IF SigOk(r.x, m.from + 1, s) THEN {CheckPreCommit(r.x)}
                          ELSE {[r.x EXCEPT !.pc[m.from + 1] = None]}

\* dbft.go onRecoveryMessage.  The order in which the message hands out its
\* embedded payloads is an input (x.env.rmOrder: kind -> sequence of positions).
Permuted(seq, ord) == [i \in 1..Len(seq) |-> seq[ord[i] + 1]]
Ordered(x, kind, seq) == IF kind \in DOMAIN x.env.rmOrder /\ Len(x.env.rmOrder[kind]) = Len(seq)
                         THEN {Permuted(seq, x.env.rmOrder[kind])} ELSE Orders(Range(seq))
OnRecoveryMessage(x0, m) ==
  LET x == [x0 EXCEPT !.rec = TRUE]
      Finish(S) == {[s EXCEPT !.rec = FALSE] : s \in S}
      resps == SelectSeq(m.prep, LAMBDA p : p.t = "PrepareResponse")
      reqs == SelectSeq(m.prep, LAMBDA p : p.t = "PrepareRequest")
      \* step 1: change views of a higher view
      S1 == IF m.v > x.v
            THEN (IF Locked(x) /\ ~W("no_commit_lock_recovery") THEN {} ELSE UNION {ReplaySeq({x}, o) : o \in Ordered(x, "cvs", m.cvs)})
            ELSE {x}
      Prep(s) ==
        IF m.v = s.v /\ (~ViewChanging(s) \/ MoreThanF(s)) /\ ~CommitSent(s) /\ (~s.amev \/ ~PreCommitSent(s))
        THEN LET A == IF ~ReqRcvd(s) /\ reqs # <<>> THEN OnReceive(s, reqs[1]) ELSE {s}
             IN Bind(A, LAMBDA a : UNION {ReplaySeq({a}, o) : o \in Ordered(a, "resp", resps)})
        ELSE {s}
      Cm(s) ==
        IF m.v <= s.v
        THEN Bind(UNION {ReplaySeq({s}, o) : o \in Ordered(s, "pcs", m.pcs)},
                  LAMBDA a : UNION {ReplaySeq({a}, o) : o \in Ordered(a, "cms", m.cms)})
        ELSE {s}
  IN IF m.v > x.v /\ Locked(x) /\ ~W("no_commit_lock_recovery") THEN Finish({x})
     ELSE Finish(Bind(Bind(S1, Prep), Cm))

\* dbft.go OnReceive
OnReceive(x, m) ==
  IF m.from >= x.n THEN {x}
  ELSE IF m.t \in NilTypes THEN {x}      \* msg.Payload() == nil
  ELSE IF m.h < x.h THEN {x}
  ELSE IF m.h > x.h \/ (m.v > x.v /\ m.t \notin {"ChangeView", "RecoveryMessage"}) THEN {CacheAdd(x, m)}
  ELSE LET sn == x.seen[m.from + 1]
           x0 == IF sn.k = "none" \/ sn.h < m.h \/ sn.v < m.v
                 THEN [x EXCEPT !.seen[m.from + 1] = [k |-> "hv", h |-> m.h, v |-> m.v]] ELSE x
       IN IF x0.blockDone /\ m.t # "RecoveryRequest" /\ ~W("no_blocksent_gate") THEN {x0}
          ELSE CASE m.t = "ChangeView" -> OnChangeView(x0, m)
                 [] m.t = "PrepareRequest" -> OnPrepareRequest(x0, m)
                 [] m.t = "PrepareResponse" -> OnPrepareResponse(x0, m)
                 [] m.t = "Commit" -> OnCommit(x0, m)
                 [] m.t = "PreCommit" -> IF ~x0.amev THEN {x0} ELSE OnPreCommit(x0, m)
                 [] m.t = "RecoveryRequest" -> OnRecoveryRequest(x0, m)
                 [] m.t = "RecoveryMessage" -> OnRecoveryMessage(x0, m)
                 [] OTHER -> {x0}     \* unknown message type: logged, ignored

-----------------------------------------------------------------------------
\* send.go sendPrepareRequest, context.go Fill

SendPrepareRequest(x, force) ==
  LET declined == MaxTpbOn(x) /\ ~force /\ x.env.pool = <<>>
  IN IF declined
     THEN {ChangeTimer(Emit([x EXCEPT !.sub = TRUE], [k |-> "SubscribeForTxs"]), x.maxTpb - x.tpb)}
     ELSE LET now == x.env.now
              inc == x.cfg.inc
              tsNow == (now \div inc) * inc
              x1 == [x EXCEPT !.nonce = x.env.nonce, !.txs = x.env.pool, !.have = @ \cup Range(x.env.pool),
                              !.ts = IF tsNow > x.lbTs + inc THEN tsNow ELSE x.lbTs + inc, !.sub = FALSE]
              ph == [h |-> x1.h, v |-> x1.v, from |-> x1.me, ts |-> x1.ts, nonce |-> x1.nonce, txs |-> x1.txs]
              x2 == [x1 EXCEPT !.prep[x1.me + 1] = [k |-> "req", v |-> x1.v, ph |-> ph]]
              x3 == Bcast(x2, PrepPayload(x2, x2.me + 1))
              x4 == IF W("primary_keeps_early") THEN x3 ELSE UpdateExistingPayloads(x3, ph)
              x5 == [x4 EXCEPT !.sentAt = now]
              d == x5.tpb * Pow2(x5.v + 1) - (IF x5.v = 0 THEN x5.tpb ELSE 0)
          IN {CheckPrepare(ChangeTimer(x5, d))}

\* dbft.go onTimeout
OnTimeoutF(x, h, v, force) ==
  IF WatchOnly(x) \/ (x.blockDone /\ ~W("no_blocksent_gate")) THEN {x}
  ELSE IF h # x.h \/ v # x.v THEN {x}
  ELSE IF IsPrimary(x) /\ ~ReqRcvd(x) THEN SendPrepareRequest(x, x.v # 0 \/ x.sub \/ force)
  ELSE IF Locked(x) /\ ~W("no_commit_lock_timeout")
       THEN {IF W("no_rearm_locked") THEN SendRecoveryMessage(x) ELSE ChangeTimer(SendRecoveryMessage(x), x.tpb * 2)}
  ELSE IF x.v = 0 /\ MaxTpbOn(x) /\ IsBackup(x) /\ force
       THEN {[ChangeTimer(x, x.tpb * 2) EXCEPT !.sub = FALSE]}
  ELSE IF x.v = 0 /\ MaxTpbOn(x) /\ IsBackup(x) /\ ~x.sub /\ x.env.pool = <<>>
       THEN {ChangeTimer(Emit([x EXCEPT !.sub = TRUE], [k |-> "SubscribeForTxs"]), x.maxTpb * 2 - x.tpb * 2)}
  ELSE SendChangeView(x, RTimeout)

\* dbft.go addTransaction / OnTransaction
OnTransaction(x, tx) ==
  IF ~IsBackup(x) \/ NotAccepting(x) \/ ~ReqRcvd(x) \/ ResponseSent(x) \/ PreCommitSent(x) \/ CommitSent(x)
     \/ x.blockDone \/ x.missing = <<>> THEN {x}
  ELSE IF tx \notin Range(x.missing) THEN {x}
  ELSE LET i == CHOOSE j \in 1..Len(x.missing) : x.missing[j] = tx /\ \A k \in 1..(j - 1) : x.missing[k] # tx
           x1 == [x EXCEPT !.missing = SubSeq(@, 1, i - 1) \o SubSeq(@, i + 1, Len(@)), !.have = @ \cup {tx}]
       IN IF ~HasAllTx(x1) THEN {x1} ELSE OnAllTransactions(x1)

-----------------------------------------------------------------------------
\* Public API: call records [call, arg]; x.env must be set by the caller

Blank(cfg) ==
  [started |-> FALSE, h |-> 0, v |-> 0, n |-> 0, me |-> -1, watch |-> TRUE, primary |-> 0, amev |-> FALSE,
   vals |-> <<>>, prev |-> "", ts |-> 0, nonce |-> "0", txs |-> <<>>, have |-> {}, missing |-> <<>>,
   prep |-> <<>>, pc |-> <<>>, cm |-> <<>>, cv |-> <<>>, lastcv |-> <<>>, seen |-> <<>>,
   blockDone |-> FALSE, preDone |-> FALSE, hdr |-> FALSE, preHdr |-> FALSE, blk |-> FALSE, preBlk |-> FALSE,
   cache |-> {}, timer |-> NoTimer, sub |-> FALSE, lbTs |-> 0, lbTime |-> -1, lbIdx |-> 0, lbView |-> 0,
   sentAt |-> -1, rttAvg |-> 0, rttOld |-> 0, tpb |-> 0, maxTpb |-> 0,
   out |-> <<>>, fp |-> 0, fb |-> 0, rec |-> FALSE, cfg |-> cfg, env |-> [now |-> 0]]

Api(x0, call, arg, env) ==
  LET x == [x0 EXCEPT !.env = env, !.out = <<>>, !.fp = env.failPre, !.fb = env.failBlock, !.rec = FALSE] IN
    CASE call = "Start" ->
           Bind(InitializeConsensus([x EXCEPT !.cache = {}], 0, arg.ts),
                LAMBDA s : IF IsPrimary(s) /\ (~WatchOnly(s) \/ W("start_ignores_watchonly")) THEN SendPrepareRequest(s, TRUE) ELSE {s})
      [] call = "Reset" -> InitializeConsensus(x, 0, arg.ts)
      [] call = "OnReceive" -> OnReceive(x, arg)
      [] call = "OnTimeout" -> OnTimeoutF(x, arg.h, arg.v, FALSE)
      [] call = "OnTransaction" -> OnTransaction(x, arg.tx)
      [] call = "OnNewTransaction" -> IF ~x.sub THEN {x} ELSE OnTimeoutF(x, x.timer.h, x.timer.v, TRUE)
=============================================================================
