------------------------------- MODULE MC_Dyn -------------------------------
(***************************************************************************)
(* C16 (and the timer side of C10, C15) at design level, with TIME.        *)
(*                                                                         *)
(* A single-validator network (N = 1, so the node is the primary of every  *)
(* height and decides alone) run over several heights against a clock:    *)
(* the clock advances in units, the timer fires exactly when it is due     *)
(* (never early - C18 - and, the run being synchronous, not late), a       *)
(* transaction may appear in the pool at any instant (the application then *)
(* calls OnNewTransaction), the application calls Reset as soon as a block *)
(* is accepted or one unit later.  With the maximum-block-time extension   *)
(* on, TLC checks on every behaviour:                                      *)
(*   MinGap         consecutive proposals are at least tpb apart,          *)
(*   EmptyAfterMax  a proposal without transactions is made only maxTpb    *)
(*                  after the previous one,                                *)
(*   Prompt         a new-transaction notification during the extended     *)
(*                  wait produces the proposal inside the same call,       *)
(*   NotLate        a proposal is made no later than maxTpb (+ the Reset   *)
(*                  delay) after the previous one,                         *)
(*   NeverAsks      nothing but proposals / commits is ever broadcast,     *)
(*   SubscribeOnlyIfOn  the subscription callback only with the extension. *)
(* With the extension off the gap is exactly tpb.  The state cover is      *)
(* executed on a real node (virtual clock) and the C16 / C10 / C15 trace   *)
(* formulas are evaluated on what it really does.                          *)
(***************************************************************************)
EXTENDS Integers, Sequences, FiniteSets, TLC, Json

CONSTANTS DynOn, AmevOn, Heights, Emit, CoverMod

Node == INSTANCE DbftNode WITH DevEarlyCommitUnverified <- TRUE, Weaken <- {}

H == 2
Tpb == 1000
MaxTpb == 3000
U == 500                      \* clock unit
T0 == 5000
Cfg == [tpb |-> Tpb, maxTpb |-> IF DynOn THEN MaxTpb ELSE 0, inc |-> 1, amevH |-> IF AmevOn THEN 0 ELSE -1, watch |-> FALSE]
Tip(g) == "T:tip" \o ToString(g)
LedgerAt(g, ts) == [height |-> g - 1, tip |-> Tip(g), tipTs |-> ts, nvals |-> 1, myIndex |-> 0, vals |-> <<500>>]

VARIABLES x, now, pool, tipTs, hist
vars == <<x, now, pool, tipTs, hist>>

EnvOf == [now |-> now, ledger |-> LedgerAt(IF x.started /\ x.blockDone THEN x.h + 1 ELSE IF x.started THEN x.h ELSE H, tipTs),
          known |-> {}, pool |-> IF pool THEN <<"tA">> ELSE <<>>, bad |-> {}, failPre |-> 0, failBlock |-> 0, nilBlock |-> FALSE,
          rejects |-> {}, nonce |-> ToString(200 + (IF x.started THEN x.h ELSE H)), rttOldNext |-> 0, rmOrder |-> <<>>]
Strip(o) == [o EXCEPT !.out = <<>>, !.env = [now |-> 0], !.fp = 0, !.fb = 0]
Bcasts(out) == {out[j].m : j \in {k \in 1..Len(out) : out[k].k = "Broadcast"}}
Props(out) == {m \in Bcasts(out) : m.t = "PrepareRequest"}
Asks(out) == \E m \in Bcasts(out) : m.t \in {"ChangeView", "RecoveryRequest", "RecoveryMessage"}
Subs(out) == \E j \in 1..Len(out) : out[j].k = "SubscribeForTxs"

\* hist: time / emptiness of the last proposal, flags, the schedule
Record(o, ev, newtx, lag) ==
  LET ps == Props(o.out) IN
  /\ x' = Strip(o)
  /\ hist' = [last |-> IF ps = {} THEN hist.last ELSE now, prev |-> IF ps = {} THEN hist.prev ELSE hist.last,
              empty |-> IF ps = {} THEN hist.empty ELSE \E m \in ps : m.txs = <<>>,
              nprop |-> hist.nprop + Cardinality(ps),
              asked |-> hist.asked \/ Asks(o.out), subs |-> hist.subs \/ Subs(o.out),
              promptFail |-> hist.promptFail \/ (newtx /\ x.sub /\ ~x.blockDone /\ x.prep[1].k = "none" /\ ps = {}),
              resetLag |-> lag,
              evs |-> IF Emit THEN Append(hist.evs, ev @@ [done |-> FALSE]) ELSE <<>>]

Init == /\ now = T0 /\ pool = FALSE /\ tipTs = 4000
        /\ \E o \in Node!Api(Node!Blank(Cfg), "Start", [ts |-> 4000],
                             [now |-> T0, ledger |-> LedgerAt(H, 4000), known |-> {}, pool |-> <<>>, bad |-> {}, failPre |-> 0, failBlock |-> 0,
                              nilBlock |-> FALSE, rejects |-> {}, nonce |-> ToString(200 + H), rttOldNext |-> 0, rmOrder |-> <<>>]) :
             /\ x = Strip(o)
             /\ hist = [last |-> T0, prev |-> -1, empty |-> TRUE, nprop |-> Cardinality(Props(o.out)), asked |-> Asks(o.out), subs |-> Subs(o.out),
                        promptFail |-> FALSE, resetLag |-> 0,
                        evs |-> IF Emit THEN <<[call |-> "Start", arg |-> [ts |-> 4000], cfg |-> Cfg, sync |-> TRUE, target |-> H, delayMax |-> 0, done |-> FALSE,
                                               env |-> [now |-> T0, ledger |-> LedgerAt(H, 4000), known |-> {}, pool |-> <<>>, bad |-> {}, failPre |-> 0, failBlock |-> 0,
                                                        nilBlock |-> FALSE, rejects |-> {}, nonce |-> ToString(200 + H), rttOldNext |-> 0, rmOrder |-> <<>>]]>> ELSE <<>>]

\* time passes, but never beyond the instant the timer is due (it fires then), nor while a Reset is overdue
Tick == /\ IF x.blockDone THEN hist.resetLag < 1 ELSE (x.timer.k = "t" /\ now + U <= x.timer.due)
        /\ now' = now + U
        /\ hist' = [hist EXCEPT !.resetLag = IF x.blockDone THEN @ + 1 ELSE @]
        /\ UNCHANGED <<x, pool, tipTs>>
Fire == /\ ~x.blockDone /\ x.timer.k = "t" /\ now >= x.timer.due
        /\ LET arg == [h |-> x.timer.h, v |-> x.timer.v] IN
           \E o \in Node!Api(x, "OnTimeout", arg, EnvOf) : Record(o, [call |-> "OnTimeout", arg |-> arg, env |-> EnvOf], FALSE, hist.resetLag)
        /\ UNCHANGED <<now, pool, tipTs>>
NewTx == /\ ~pool /\ pool' = TRUE
         /\ LET env == [EnvOf EXCEPT !.pool = <<"tA">>] IN
            \E o \in Node!Api(x, "OnNewTransaction", [none |-> 0], env) : Record(o, [call |-> "OnNewTransaction", arg |-> [none |-> 0], env |-> env], TRUE, hist.resetLag)
         /\ UNCHANGED <<now, tipTs>>
Reset == /\ x.blockDone /\ x.h < H + Heights
         /\ LET ts == x.ts
                env == [EnvOf EXCEPT !.ledger = LedgerAt(x.h + 1, ts)]
                arg == [ts |-> ts] IN
            /\ \E o \in Node!Api(x, "Reset", arg, env) : Record(o, [call |-> "Reset", arg |-> arg, env |-> env], FALSE, 0)
            /\ tipTs' = ts
         /\ pool' = (pool /\ x.txs = <<>>)          \* the accepted block took the transaction out of the pool
         /\ UNCHANGED now

Next == Tick \/ Fire \/ NewTx \/ Reset
Spec == Init /\ [][Next]_vars
View == <<x, now, pool, tipTs, [hist EXCEPT !.evs = <<>>]>>
TimeBound == now <= T0 + 20 * Tpb

-----------------------------------------------------------------------------
Gap == hist.last - hist.prev
MinGap == hist.prev >= 0 => Gap >= Tpb
EmptyAfterMax == (DynOn /\ hist.prev >= 0 /\ hist.empty) => Gap >= MaxTpb
ExactGapWhenOff == (~DynOn /\ hist.prev >= 0) => Gap <= Tpb + U
NotLate == (DynOn /\ hist.prev >= 0) => Gap <= MaxTpb + U
Prompt == ~hist.promptFail
NeverAsks == ~hist.asked
SubscribeOnlyIfOn == hist.subs => DynOn
View0 == x.v = 0
TimerOK == ~x.blockDone => (x.timer.k = "t" /\ x.timer.h = x.h /\ x.timer.v = x.v /\ x.timer.d >= 0)

EmitCover == (Emit /\ (CoverMod = 1 \/ TLCGet("generated") % CoverMod = 0)) => PrintT(<<"COVER", ToJson(hist.evs)>>)
=============================================================================
