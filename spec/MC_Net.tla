------------------------------- MODULE MC_Net -------------------------------
(***************************************************************************)
(* Closed composition of DbftNode.tla (design check for the global         *)
(* properties, C01 first of all): the honest validators of one height run  *)
(* the node specification; the network is the set of payloads they have    *)
(* broadcast, any of which may be delivered to anybody any number of times *)
(* or never (loss, duplication, reordering); timers fire at any moment;    *)
(* the validators in Byz deliver payloads of a finite menu DIRECTLY to a    *)
(* chosen node (so equivocation costs nothing and the pool does not blow    *)
(* up): equivocating proposals when they are the view's primary, responses *)
(* and commits for any proposal that exists, junk commits, change views.   *)
(* They cannot forge honest identities.                                    *)
(*                                                                         *)
(* The schedule is carried in hist.evs (hidden from the fingerprint by     *)
(* VIEW) so that a counterexample can be executed on real nodes by the     *)
(* harness' script driver.                                                 *)
(***************************************************************************)
EXTENDS Integers, Sequences, FiniteSets, TLC, Json

CONSTANTS N, H, MaxView, Byz, AmevOn, DevEarlyCommitUnverified, Weaken, Emit, EmitLen, MaxSteps,
          Skel   \* <<>>: free exploration; else an ATTACK SKELETON, a sequence of abstract steps [n, k, from, v, c] the scheduler must follow (see Follows)

Node == INSTANCE DbftNode

Val == 0..(N - 1)
Honest == Val \ Byz
Now == 5000
F == (N - 1) \div 3
M == N - F
Cfg == [tpb |-> 1000, maxTpb |-> 0, inc |-> 1, amevH |-> IF AmevOn THEN 0 ELSE -1, watch |-> FALSE]
Ledger(i) == [height |-> H - 1, tip |-> "T:tip", tipTs |-> 4000, nvals |-> N, myIndex |-> i, vals |-> [k \in 1..N |-> k - 1]]
Prim(v) == (H - v) % N
Views == 0..MaxView
NonceOf(i, v) == ToString(200 + 10 * i + v)
EnvOf(i, v) == [now |-> Now, ledger |-> Ledger(i), known |-> {}, pool |-> <<>>, bad |-> {}, failPre |-> 0, failBlock |-> 0, nilBlock |-> FALSE,
                rejects |-> {}, nonce |-> NonceOf(i, v), rttOldNext |-> 0, rmOrder |-> <<>>]

VARIABLES xs,     \* honest validator -> node state
          net,    \* payloads broadcast by honest validators
          hist    \* [evs, steps]
vars == <<xs, net, hist>>

Strip(o) == [o EXCEPT !.out = <<>>, !.env = [now |-> 0], !.fp = 0, !.fb = 0]
Bcasts(out) == {out[j].m : j \in {k \in 1..Len(out) : out[k].k = "Broadcast"}}

\* Byzantine menu: proposals with two contents per view where a Byzantine validator is primary
ByzHash(v, c) == [h |-> H, v |-> v, from |-> Prim(v), ts |-> 4001, nonce |-> IF c = 1 THEN "901" ELSE "902", txs |-> <<>>]
BlockOf(ph) == [h |-> H, prev |-> "T:tip", ts |-> ph.ts, nonce |-> ph.nonce, txs |-> ph.txs]
HonestProps(v) == {[h |-> m.h, v |-> m.v, from |-> m.from, ts |-> m.ts, nonce |-> m.nonce, txs |-> m.txs] : m \in {p \in net : p.t = "PrepareRequest" /\ p.v = v}}
Props(v) == HonestProps(v) \cup (IF Prim(v) \in Byz THEN {ByzHash(v, 1), ByzHash(v, 2)} ELSE {})
ByzMenu ==
  UNION {   {[t |-> "PrepareRequest", h |-> H, v |-> v, from |-> b, ts |-> ByzHash(v, c).ts, nonce |-> ByzHash(v, c).nonce, txs |-> <<>>]
               : c \in (IF Prim(v) = b THEN {1, 2} ELSE {})}
       \cup {[t |-> "PrepareResponse", h |-> H, v |-> v, from |-> b, ph |-> ph] : ph \in Props(v)}
       \cup {[t |-> (IF AmevOn THEN "PreCommit" ELSE "Commit"), h |-> H, v |-> v, from |-> b, s |-> b, b |-> BlockOf(ph)] : ph \in Props(v)}
       \cup (IF AmevOn THEN {[t |-> "Commit", h |-> H, v |-> v, from |-> b, s |-> b, b |-> BlockOf(ph)] : ph \in Props(v)} ELSE {})
       \cup {[t |-> "Commit", h |-> H, v |-> v, from |-> b, s |-> -1, b |-> [h |-> 0, prev |-> "", ts |-> 0, nonce |-> "junk:junk0", txs |-> <<>>]]}
       \cup {[t |-> "ChangeView", h |-> H, v |-> v, from |-> b, ts |-> Now, nv |-> v + 1, reason |-> 0]}
       \cup {[t |-> "RecoveryRequest", h |-> H, v |-> v, from |-> b, ts |-> Now]}
     : b \in Byz, v \in Views }

\* Attack skeletons.  A skeleton names, step by step, WHO does WHAT: node n starts ("Start"), its timer fires ("TO"), or it is
\* given a payload of type k from validator `from` carrying view v.  The payload itself is computed by the model: for an honest
\* sender it is whatever that node has broadcast of that kind (any of them), for a Byzantine sender the menu entry built on the
\* proposal selected by c (0 = the honest proposal of view v, 1 / 2 = the Byzantine primary's own contents).  TLC runs the
\* skeleton on a WEAKENED model to confirm that it ends in a fork (then it is an attack worth keeping) and on the faithful one
\* to confirm that it does not; the concrete schedule (hist.evs) is executed on real nodes in closed loop.
NoSkel == <<>>
Pos == hist.steps + 1
SelProp(v, c) == IF c = 0 THEN (IF HonestProps(v) = {} THEN [h |-> 0] ELSE CHOOSE p \in HonestProps(v) : TRUE) ELSE ByzHash(v, c)
Follows(i, k, m) ==
  \/ Skel = <<>>
  \/ /\ Pos <= Len(Skel)
     /\ LET s == Skel[Pos] IN
          /\ s.n = i /\ s.k = k
          /\ k \in {"Start", "TO"} \/
               ( /\ m.t = k /\ m.from = s.from /\ m.v = s.v
                 /\ (s.from \in Byz /\ k = "PrepareResponse") => m.ph = SelProp(s.v, s.c)
                 /\ (s.from \in Byz /\ k \in {"Commit", "PreCommit"}) => (m.s = s.from /\ m.b = BlockOf(SelProp(s.v, s.c)))
                 /\ (s.from \in Byz /\ k = "PrepareRequest") => m.nonce = ByzHash(s.v, s.c).nonce )

Record(i, call, arg, env, o) ==
  /\ xs' = [xs EXCEPT ![i] = Strip(o)]
  /\ net' = net \cup {m \in Bcasts(o.out) : m.t # "RecoveryMessage" \/ TRUE}
  /\ hist' = [evs |-> IF Emit THEN Append(hist.evs, [n |-> i, call |-> call, arg |-> arg, env |-> env]) ELSE <<>>, steps |-> hist.steps + 1]

Init ==
  /\ net = {} /\ hist = [evs |-> <<>>, steps |-> 0]
  /\ xs = [i \in Honest |-> Node!Blank(Cfg)]

StartNode(i) ==
  /\ ~xs[i].started /\ Follows(i, "Start", [t |-> "none"])
  /\ \E o \in Node!Api(xs[i], "Start", [ts |-> 4000], EnvOf(i, 0)) :
       /\ xs' = [xs EXCEPT ![i] = Strip(o)]
       /\ net' = net \cup Bcasts(o.out)
       /\ hist' = [evs |-> IF Emit THEN Append(hist.evs, [n |-> i, call |-> "Start", arg |-> [ts |-> 4000], env |-> EnvOf(i, 0), cfg |-> Cfg]) ELSE <<>>,
                   steps |-> hist.steps + 1]

AllStarted == \A i \in Honest : xs[i].started

Deliver(i, m) ==
  /\ AllStarted /\ m.from # i /\ Follows(i, m.t, m)
  /\ LET env == EnvOf(i, xs[i].v + 1) IN
     \E o \in Node!Api(xs[i], "OnReceive", m, env) :
       /\ Strip(o) # xs[i] \/ o.out # <<>>
       /\ Record(i, "OnReceive", m, env, o)

Timeout(i) ==
  /\ AllStarted /\ xs[i].timer.k = "t" /\ ~xs[i].blockDone /\ Follows(i, "TO", [t |-> "none"])
  /\ LET arg == [h |-> xs[i].timer.h, v |-> xs[i].timer.v]
         env == EnvOf(i, xs[i].v) IN
     \E o \in Node!Api(xs[i], "OnTimeout", arg, env) : Record(i, "OnTimeout", arg, env, o)

Next ==
  \/ \E i \in Honest : StartNode(i)
  \/ \E i \in Honest : \E m \in net \cup ByzMenu : Deliver(i, m)
  \/ \E i \in Honest : Timeout(i)

Spec == Init /\ [][Next]_vars
Bound == (\A i \in Honest : xs[i].v <= MaxView) /\ hist.steps <= MaxSteps
View == <<xs, net>>

\* C01: honest validators never accept different blocks at one height
Agreement == \A i, j \in Honest : (xs[i].blockDone /\ xs[j].blockDone) => Node!CtxBlock(xs[i]) = Node!CtxBlock(xs[j])
\* C02 on every node
Certificates == \A i \in Honest : xs[i].blockDone =>
   Cardinality({k \in 1..N : xs[i].cm[k].k = "cm" /\ xs[i].cm[k].v = xs[i].v /\ xs[i].cm[k].s = xs[i].vals[k] /\ xs[i].cm[k].b = Node!CtxBlock(xs[i])}) >= M
\* Refinement of spec/AgreementAbs.tla (the abstract commit/accept protocol PROVED to keep Agreement for every validator count).
\* The mapping: cm[i] = what validator i's own Commit slot holds, acc[i] = the block it handed over.  The two obligations are the
\* abstract actions' guards: G1 - a step changes a validator's signed set only from "nothing" (AbsOneCommit, an action property);
\* G2 - a validator that accepted b is backed, in one view, by M validators counting only honest ones that REALLY signed
\* <<view, b>> plus the Byzantine ones (AbsCertificate; stronger than Certificates, which looks at the acceptor's tables only).
\* With both, every step of this closed composition is a step (or a stutter) of AgreementAbs!Next, so the theorem transfers.
AbsCm(i) == IF xs[i].started /\ xs[i].cm[i + 1].k = "cm" THEN {<<xs[i].cm[i + 1].v, xs[i].cm[i + 1].b>>} ELSE {}
AbsAcc(i) == IF xs[i].started /\ xs[i].blockDone THEN {Node!CtxBlock(xs[i])} ELSE {}
AbsChosen(b) == \E v \in Views : Cardinality(Byz \cup {j \in Honest : <<v, b>> \in AbsCm(j)}) >= M
AbsCertificate == \A i \in Honest : \A b \in AbsAcc(i) : AbsChosen(b)
AbsOneCommit == [][\A i \in Honest : AbsCm(i) # {} => AbsCm(i)' = AbsCm(i)]_vars

\* somebody decides at all (used negated, to make TLC exhibit a deciding behaviour: non-vacuity of Agreement)
NobodyDecides == \A i \in Honest : ~xs[i].blockDone
TwoDecide == Cardinality({i \in Honest : xs[i].blockDone}) < 2

EmitBehaviour == (Emit /\ Len(hist.evs) \in {EmitLen, EmitLen \div 2, 6}) => PrintT(<<"BEHAVIOUR", ToJson(hist.evs)>>)
=============================================================================
