SPECIFICATION Spec
POSTCONDITION Post
CHECK_DEADLOCK FALSE
