---------------------------- MODULE QuorumProof ----------------------------
(***************************************************************************)
(* C06, design part, for EVERY validator count (machine-checked by TLAPS): *)
(* with F = floor((n-1)/3) and M = n - F, two quorums of M validators out  *)
(* of n share more than F of them, and a quorum never needs a faulty one.  *)
(* The definitions are those of Quorum.tla / DbftNode.tla.                 *)
(***************************************************************************)
EXTENDS Integers, TLAPS

F(n) == (n - 1) \div 3
M(n) == n - F(n)

THEOREM FloorBounds == \A n \in Nat \ {0} : /\ F(n) \in Nat
                                            /\ 3 * F(n) + 1 <= n
                                            /\ n < 3 * (F(n) + 1) + 1
  BY SMT DEF F

THEOREM QuorumFacts == \A n \in Nat \ {0} :
      /\ M(n) \in Nat /\ M(n) >= 1 /\ M(n) <= n
      /\ 2 * M(n) - n > F(n)          \* two quorums intersect in more than F validators
      /\ n - F(n) >= M(n)             \* the honest validators alone form a quorum
      /\ M(n) > 2 * F(n)              \* a quorum contains more honest than faulty validators
  BY FloorBounds, SMT DEF M

\* primary rotation: (h - v) mod n is a valid index for every height, view and validator count
\* (that every validator is primary exactly once over n views is checked by TLC in Quorum.tla for n <= 64)
Primary(h, v, n) == (h - v) % n
THEOREM PrimaryInRange == \A n \in Nat \ {0} : \A h \in Nat : \A v \in Nat : Primary(h, v, n) \in 0..(n - 1)
  BY SMT DEF Primary
=============================================================================
