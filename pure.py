"""C06 (quorum arithmetic / primary rotation) and C15 (proposal well-formedness): pure functions.
TLC is the enumerator/oracle (spec/Quorum.tla, spec/Proposal.tla); rows come from the real code."""
import os, re, shutil, subprocess, json, glob
from concurrent.futures import ThreadPoolExecutor
import vlib
from vlib import Infra

def tlc_rows(spec, rows_file, wd, tag, env_extra=None, timeout=3000):
    sd = os.path.join(wd, 'spec-' + tag); os.makedirs(sd, exist_ok=True)
    shutil.copy(os.path.join(vlib.VERIF, 'spec', spec + '.tla'), sd)
    open(os.path.join(sd, spec + '.cfg'), 'w').write('')
    env = dict(os.environ, VERIF_TRACE=rows_file)
    env.update(env_extra or {})
    cmd = ['java', '-Xmx6g', '-Xss64m', '-XX:+UseParallelGC', '-cp', vlib.JAVA_CP, 'tlc2.TLC', '-workers', '1',
           '-metadir', os.path.join(sd, 'md'), '-config', spec + '.cfg', spec + '.tla']
    try:
        r = vlib.sh(cmd, cwd=sd, env=env, timeout=timeout)
    except subprocess.TimeoutExpired:
        raise Infra('TLC timed out on ' + rows_file)
    shutil.rmtree(sd, ignore_errors=True)
    if 'Model checking completed. No error has been found.' not in r.stdout and 'Assumption' not in r.stdout:
        raise Infra('TLC failed on %s:\n%s' % (rows_file, r.stdout[-2500:]))
    return r.stdout

def tlaps_quorum(wd):
    """The design half of C06 for EVERY validator count: spec/QuorumProof.tla is checked by the TLA+ proof system."""
    sd = os.path.join(wd, 'tlaps'); os.makedirs(sd, exist_ok=True)
    shutil.copy(os.path.join(vlib.VERIF, 'spec', 'QuorumProof.tla'), sd)
    try:
        r = vlib.sh(['tlapm', '--threads', '4', 'QuorumProof.tla'], cwd=sd, timeout=300)
    except (subprocess.TimeoutExpired, FileNotFoundError) as e:
        return {'module': 'spec/QuorumProof.tla', 'proved': False, 'note': 'tlapm not run: %s' % e}
    m = re.search(r'All (\d+) obligations? proved', r.stdout)
    shutil.rmtree(sd, ignore_errors=True)
    return {'module': 'spec/QuorumProof.tla', 'proved': bool(m), 'obligations': int(m.group(1)) if m else 0,
            'theorems': ['FloorBounds', 'QuorumFacts', 'PrimaryInRange'], 'domain': 'every n in Nat \\ {0} (unbounded)',
            'note': '' if m else r.stdout[-600:]}

def c06(tier, seed, wd, ev):
    vh = vlib.build_harness(wd)
    proof = tlaps_quorum(wd)
    rd = os.path.join(wd, 'rows'); os.makedirs(rd)
    jobs = []
    if tier == 'quick':
        jobs.append((os.path.join(rd, 'q.ndjson'), [vh, 'quorum', '-out', os.path.join(rd, 'q.ndjson')]))
        maxn = '3000'
    else:
        step = 4096
        for lo in range(1, 65536, step):
            f = os.path.join(rd, 'q-%d.ndjson' % lo)
            jobs.append((f, [vh, 'quorum', '-full', '-lo', str(lo), '-hi', str(min(65535, lo + step - 1)), '-out', f]))
        maxn = '65535'
    def run(j):
        r = vlib.sh(j[1], timeout=1800)
        if r.returncode != 0:
            raise Infra('quorum driver failed: ' + r.stdout[-1500:])
        out = tlc_rows('Quorum', j[0], wd, os.path.basename(j[0]), {'VERIF_MAXN': maxn if j is jobs[0] else '10'})
        m = re.search(r'<<"C06-SUMMARY", (\d+), (\d+), (\d+)>>', out)
        if not m:
            # a violated ASSUME (design theorem) also ends here
            raise Infra('no summary from TLC:\n' + out[-2000:])
        bad = re.findall(r'<<"C06-BAD", (.*?)>>\n', out, re.S)
        thm = 'is false' in out or 'Assumption' in out
        return int(m.group(1)), int(m.group(2)), int(m.group(3)), bad, thm, j[0]
    with ThreadPoolExecutor(max_workers=max(1, vlib.NCPU // 2)) as ex:
        res = list(ex.map(run, jobs))
    rows, nbad, nrot = sum(r[0] for r in res), sum(r[1] for r in res), sum(r[2] for r in res)
    # the state-level part: primary = (h - v) mod n on every snapshot of real runs
    tdir = os.path.join(wd, 'traces'); os.makedirs(tdir)
    traces = (vlib.record(vh, 'sync', seed, 16, tdir, ['-heights', '3']) + vlib.record(vh, 'open', seed, 64, tdir, ['-steps', '400'])
              + vlib.record(vh, 'async', seed, 32, tdir, ['-steps', '400']) + vlib.record(vh, 'faults', seed, 32, tdir, ['-heights', '2']))   # view skips, validator-set changes, restarts
    viols, lines, states, conf = vlib.validate(traces, wd)
    mine = [v for v in viols if v['prop'] == 'C06']
    ev['level'] = 'exploration'
    ev['coverage'] = {
        'evaluations': rows, 'distinct_nontrivial': rows - 0,
        'rule': 'one row per (validator count N, height, view): the real Context.F(), M(), GetPrimaryIndex(view) with BlockIndex = height; '
                'N over %s, 17 heights incl. 0, N-1, N, N+1, 2^16+-1, 2^31+-1, 2^32-2, 2^32-1, views {0,1,2,3,7,255}; plus rotation rows '
                '(all N views at one height / N consecutive heights at one view) for small N; every row is distinct by construction and none is trivial '
                '(each is compared with the TLA+ definition)' % ('every N in 1..65535' if tier != 'quick' else 'every N in 1..2000 and every 97th up to 65535'),
        'samples': [json.loads(l) for l in open(jobs[0][0]).readlines()[:3]],
        'exhaustive': tier != 'quick', 'rotation_rows': nrot, 'bad_rows': nbad,
        'design_proof_tlaps': proof,
        'design_theorems': 'ASSUME ThmArith (N in 1..%s), ThmRotation (N in 1..64) checked by TLC in spec/Quorum.tla' % maxn,
        'trace_lines_with_PrimaryOK': lines, 'checker_cmd': 'tlc Quorum.tla (ASSUME over rows)',
    }
    rc = 0
    if nbad or mine:
        rp = os.path.join(vlib.VERIF, 'replays', 'C06-rows.txt'); os.makedirs(os.path.dirname(rp), exist_ok=True)
        with open(rp, 'w') as o:
            for r in res:
                for b in r[3]:
                    o.write(b + '\n')
            for v in mine[:5]:
                o.write(json.dumps(dict(v, file=os.path.basename(v['file']))) + '\n')
        print('VIOLATION property=C06 replay=%s' % rp)
        print('  %d rows of the real F/M/GetPrimaryIndex disagree with the TLA+ definitions; %d trace snapshots fail PrimaryOK' % (nbad, len(mine)))
        ev['violations'] = nbad + len(mine)
        rc = 1
    return rc
