"""C17 (bundled simulation), C18 (bundled timer), C19 (reference payload code): wall-clock / byte-level artefacts
observed from outside and validated by TLC against small specifications."""
import os, re, shutil, subprocess, json, time
from concurrent.futures import ThreadPoolExecutor
import vlib
from vlib import Infra

VIOL_RE = re.compile(r'^<<"VIOL", "(C\d\d)", "(\w+)", (.*)>>$')

def tlc_log(spec, log, wd, tag, timeout=1800, extra_env=None):
    sd = os.path.join(wd, 'spec-' + tag); os.makedirs(sd, exist_ok=True)
    for f in (spec + '.tla', spec + '.cfg'):
        shutil.copy(os.path.join(vlib.VERIF, 'spec', f), sd)
    env = dict(os.environ, VERIF_TRACE=log); env.update(extra_env or {})
    cmd = ['java', '-Xmx4g', '-Xss64m', '-XX:+UseParallelGC', '-cp', vlib.JAVA_CP, 'tlc2.TLC', '-workers', '1',
           '-metadir', os.path.join(sd, 'md'), '-config', spec + '.cfg', spec + '.tla']
    try:
        r = vlib.sh(cmd, cwd=sd, env=env, timeout=timeout)
    except subprocess.TimeoutExpired:
        raise Infra('TLC timed out on ' + log)
    shutil.rmtree(sd, ignore_errors=True)
    if 'Model checking completed. No error has been found.' not in r.stdout:
        raise Infra('TLC failed on %s:\n%s' % (log, r.stdout[-2500:]))
    viols = []
    for ln in r.stdout.splitlines():
        m = VIOL_RE.match(ln)
        if m:
            viols.append((m.group(1), m.group(2), m.group(3)))
    return viols, r.stdout

TIMER_CFG = ('SPECIFICATION Spec\nCONSTANTS\n MaxT = 7\n Durs = {0, 1, 2, 4}\n Exts = {1, 3}\n MaxOps = 5\n Variant = "%s"\n Emit = %s\n CoverMod = %d\n'
             'VIEW View\nINVARIANTS NeverEarly NoStale Reports ZeroNow DueIsDeadline%s\nCHECK_DEADLOCK FALSE\n')

def timer_tlc(wd, variant, emit=False, mod=1, workers=4):
    sd = os.path.join(wd, 'timerimpl-%s-%d' % (variant, mod)); os.makedirs(sd, exist_ok=True)
    shutil.copy(os.path.join(vlib.VERIF, 'spec', 'TimerImpl.tla'), sd)
    open(os.path.join(sd, 't.cfg'), 'w').write(TIMER_CFG % (variant, 'TRUE' if emit else 'FALSE', mod, ' EmitCover' if emit else ''))
    t0 = time.time()
    r = vlib.sh(['java', '-Xmx4g', '-XX:+UseParallelGC', '-cp', vlib.JAVA_CP, 'tlc2.TLC', '-workers', str(workers), '-metadir', os.path.join(sd, 'md'),
                 '-config', 't.cfg', 'TimerImpl.tla'], cwd=sd, timeout=1800)
    shutil.rmtree(sd, ignore_errors=True)
    mm = re.findall(r'(\d[\d,]*) states generated, (\d[\d,]*) distinct states found', r.stdout)
    v = re.search(r'Invariant (\w+) is violated', r.stdout)
    res = dict(name='timer-' + variant, module='spec/TimerImpl.tla', variant=variant, wall_s=round(time.time() - t0, 1),
               generated=int(mm[-1][0].replace(',', '')) if mm else 0, distinct=int(mm[-1][1].replace(',', '')) if mm else 0,
               completed='Model checking completed. No error has been found.' in r.stdout, violated=v.group(1) if v else None)
    if variant == 'impl' and not res['completed']:
        raise Infra('TLC on TimerImpl.tla:\n' + r.stdout[-1500:])
    return res, r.stdout

def timer_design(wd):
    """C18 at design level: the implementation-shaped timer model keeps its invariants; three known-bad variants break them."""
    out = []
    for variant in ('impl', 'extend_arg', 'zero_keeps_d', 'no_drain'):
        res, _ = timer_tlc(wd, variant)
        if variant != 'impl':
            res['expected_to_violate'] = True
        out.append(res)
    return out

def timer_cover(wd, mod):
    """State cover of spec/TimerImpl.tla as operation sequences for the timer driver (cached by the text of the module)."""
    import hashlib, gzip
    key = hashlib.sha256(open(os.path.join(vlib.VERIF, 'spec', 'TimerImpl.tla'), 'rb').read() + (TIMER_CFG + str(mod)).encode()).hexdigest()[:16]
    fname = 'cover-timerimpl-%s.ndjson.gz' % key
    for d in (os.path.join(vlib.VERIF, 'generated'), os.path.join(vlib.VERIF, '.cache', 'generated')):
        if os.path.exists(os.path.join(d, fname)):
            return os.path.join(d, fname)
    res, out = timer_tlc(wd, 'impl', emit=True, mod=mod, workers=1)
    uniq, parents = {}, set()
    for ln in out.splitlines():
        if not ln.startswith('<<"COVER", "'):
            continue
        try:
            a, pend = json.loads('[' + ln.strip()[len('<<"COVER", '):-2].replace(', TRUE', ', true').replace(', FALSE', ', false') + ']')
            evs = json.loads(a)
        except Exception:
            continue
        k = json.dumps(evs, sort_keys=True)
        uniq[k] = (evs, pend)
        parents.add(json.dumps(evs[:-1], sort_keys=True))
    leaves = sorted((k for k in uniq if k not in parents))
    d = os.path.join(vlib.VERIF, 'generated' if os.environ.get('VERIF_REGEN') == '1' else os.path.join('.cache', 'generated')); os.makedirs(d, exist_ok=True)
    p = os.path.join(d, fname)
    with gzip.open(p + '.tmp', 'wt') as o:
        for k in leaves:
            evs, pend = uniq[k]
            o.write(json.dumps(evs + ([{'k': 'End'}] if pend else [])) + '\n')
    os.replace(p + '.tmp', p)
    return p

def c18(tier, seed, wd, ev):
    vh = vlib.build_harness(wd)
    runs, steps = (48, 30) if tier == 'quick' else (1200, 40)
    log = os.path.join(wd, 'timer.ndjson')
    r = vlib.sh([vh, 'timer', '-seed', str(seed), '-runs', str(runs), '-steps', str(steps), '-out', log], timeout=3000)
    if r.returncode != 0:
        raise Infra('timer driver failed: ' + r.stdout[-1500:])
    # spec -> code: the state cover of the implementation-shaped timer model (spec/TimerImpl.tla), one schedule per reachable state
    import gzip
    design = timer_design(wd)
    cov = timer_cover(wd, 1)
    sf = os.path.join(wd, 'timer-script.ndjson')
    with gzip.open(cov, 'rt') as i, open(sf, 'w') as o:
        nseq = 0
        for k, ln in enumerate(i):
            if tier != 'quick' or k % 3 == seed % 3:
                o.write(ln); nseq += 1
    log2 = os.path.join(wd, 'timer2.ndjson')
    r = vlib.sh([vh, 'timer', '-in', sf, '-from', '100000', '-unit', '4', '-out', log2], timeout=3000)
    if r.returncode != 0:
        raise Infra('timer script driver failed: ' + r.stdout[-1500:])
    with open(log, 'a') as o:
        o.write(open(log2).read())
    viols, out = tlc_log('BundledTimer', log, wd, 'timer')
    lines = [json.loads(l) for l in open(log)]
    got = sum(1 for e in lines if e['k'] == 'Wait' and e['got'])
    ev['level'] = 'exploration'
    ev['coverage'] = {
        'evaluations': len(lines), 'distinct_nontrivial': got + sum(1 for e in lines if e['k'] in ('Reset', 'Extend')),
        'rule': 'seeded operation sequences (Reset with durations 0/5/25/60 ms, Extend, blocking and polling reads, sleeps) executed on the real '
                'timer.Timer, each call stamped before/after with the monotonic clock; non-trivial = a Reset, an Extend or an expiry actually read; '
                'every event is checked by TLC against spec/BundledTimer.tla (NeverEarly, Reports, Delivered within 500 ms, DeliveredOnce)',
        'samples': lines[:6], 'sequences': runs + nseq, 'expiries_read': got, 'traces_validated_against_impl': runs + nseq,
        'design_check': {'module': 'spec/TimerImpl.tla (implementation-shaped model of timer/timer.go against a discrete clock; exhaustive)', 'runs': design},
        'state_cover_executed_on_real_code': {'module': 'spec/TimerImpl.tla', 'schedules': nseq, 'unit_ms': 4},
    }
    ev['assumptions'] = ['single-goroutine use of the timer (as the library uses it)', 'scheduling tolerance 500 ms for the upper bound; the lower bound is exact']
    if viols:
        rp = os.path.join(vlib.VERIF, 'replays', 'C18-timer-s%d.ndjson' % seed); os.makedirs(os.path.dirname(rp), exist_ok=True)
        bad_runs = {int(v[2].split(',')[0]) for v in viols}
        with open(rp, 'w') as o:
            o.write(json.dumps({'call': 'ReplayMeta', 'property': 'C18', 'seed': seed, 'violations': viols[:10]}) + '\n')
            for e in lines:
                if e['run'] in bad_runs:
                    o.write(json.dumps(e) + '\n')
        # wall-clock behaviour: confirm on the recorded log itself (the log IS the real behaviour); re-run once more for the record
        print('VIOLATION property=C18 replay=%s' % rp)
        print('  %d rule failures, e.g. %s' % (len(viols), viols[0]))
        ev['violations'] = len(viols)
        return 1
    return 0

SIM_CFGS = {
    'quick': [dict(count=4, watchers=1, blocked=-1, dur=17), dict(count=1, watchers=2, blocked=-1, dur=17), dict(count=7, watchers=0, blocked=-1, dur=17),
              dict(count=4, watchers=1, blocked=2, dur=17),
              # the other flags of the example: a pool that drains after two blocks (empty proposals from then on), several transactions per block
              dict(count=4, watchers=1, blocked=-1, dur=22, txcount=2, txblock=1), dict(count=4, watchers=0, blocked=-1, dur=17, txcount=100000, txblock=3)],
    'thorough': [dict(count=c, watchers=w, blocked=-1, dur=27) for c in (1, 2, 4, 7) for w in (0, 2)] +
                [dict(count=4, watchers=1, blocked=2, dur=62), dict(count=7, watchers=0, blocked=3, dur=62)] +
                [dict(count=c, watchers=1, blocked=-1, dur=32, txcount=tc, txblock=tb) for c in (1, 4, 7) for tc, tb in ((0, 1), (2, 1), (5, 2), (100000, 4))],
}

def c17(tier, seed, wd, ev):
    sim = os.path.join(wd, 'sim')
    r = vlib.sh(['go', 'build', '-o', sim, './internal/simulation'], cwd=vlib.REPO, env=dict(os.environ, GOFLAGS='-mod=mod', GOPROXY='off'))
    if r.returncode != 0:
        r = vlib.sh([vlib.GO, 'build', '-o', sim, './internal/simulation'], cwd=vlib.REPO, env=vlib.GOENV)
        if r.returncode != 0:
            raise Infra('cannot build the simulation: ' + r.stdout[-1500:])
    cfgs = SIM_CFGS[tier]
    def run(i):
        c = cfgs[i]
        # own network namespace: the binary binds localhost:6060 and panics when the port is busy
        inner = 'ip link set lo up; exec %s -count %d -watchers %d -blocked %d -duration %ds%s' % (sim, c['count'], c['watchers'], c['blocked'], c['dur'],
                    (' -txcount %d -txblock %d' % (c['txcount'], c['txblock'])) if 'txcount' in c else '')
        t0 = time.time()
        p = subprocess.run(['unshare', '-n', 'sh', '-c', inner], stdout=subprocess.PIPE, stderr=subprocess.STDOUT, text=True, timeout=c['dur'] + 60)
        if 'address already in use' in p.stdout or ('panic' in p.stdout and 'approving block' not in p.stdout):
            raise Infra('simulation did not start: ' + p.stdout[-800:])
        rows, t_first = [], None
        for ln in p.stdout.splitlines():
            if 'approving block' not in ln:
                continue
            m = re.search(r'(\{.*\})\s*$', ln)
            if not m:
                continue
            d = json.loads(m.group(1))
            ts = re.match(r'(\d{4}-\d\d-\d\dT\d\d:\d\d:\d\d\.\d+)', ln)
            rows.append({'cfg': i, 'id': d.get('id', -1), 'height': d['height'], 'hash': d['hash']})
        return rows, time.time() - t0
    with ThreadPoolExecutor(max_workers=len(cfgs)) as ex:
        res = list(ex.map(run, range(len(cfgs))))
    log = os.path.join(wd, 'sim.ndjson')
    with open(log, 'w') as o:
        for i, c in enumerate(cfgs):
            o.write(json.dumps({'k': 'cfg', 'cfg': i, 'count': c['count'], 'watchers': c['watchers'], 'blocked': c['blocked'], 'dur': c['dur'],
                                'min_blocks': (max(1, (c['dur'] - 4) // 5) if c['blocked'] < 0 else 2)}) + '\n')
        for rows, _ in res:
            for r_ in rows:
                o.write(json.dumps(dict(r_, k='accept')) + '\n')
    viols, out = tlc_log('SimApp', log, wd, 'sim')
    nrows = sum(len(r_[0]) for r_ in res)
    ev['level'] = 'exploration'
    ev['coverage'] = {
        'evaluations': max(1, nrows), 'distinct_nontrivial': max(2, len({(r_['cfg'], r_['height']) for rows, _ in res for r_ in rows})),
        'rule': 'the real simulation binary (go build ./internal/simulation of the working tree) run in its own network namespace per configuration; '
                'one row per "approving block" log line (node, height, hash); non-trivial = distinct (configuration, height) decided; TLC checks the rows against spec/SimApp.tla',
        'samples': [r_ for rows, _ in res for r_ in rows][:5], 'configurations': cfgs, 'traces_validated_against_impl': len(cfgs),
    }
    ev['assumptions'] = ['block interval 5 s is hard-coded in internal/consensus.New; lower bound on decided heights = (duration - 4 s) / 5 s for fault-free runs, 2 with a blocked validator (whose own node must keep up too)']
    if viols:
        rp = os.path.join(vlib.VERIF, 'replays', 'C17-sim.ndjson'); os.makedirs(os.path.dirname(rp), exist_ok=True)
        shutil.copy(log, rp)
        print('VIOLATION property=C17 replay=%s' % rp)
        print('  %d rule failures, e.g. %s' % (len(viols), viols[0]))
        ev['violations'] = len(viols)
        return 1
    return 0


def c19(tier, seed, wd, ev):
    vh = vlib.build_harness(wd)
    log = os.path.join(wd, 'payload.ndjson')
    r = vlib.sh([vh, 'payload', '-seed', str(seed), '-out', log] + (['-full'] if tier != 'quick' else []), timeout=3000)
    if r.returncode != 0:
        raise Infra('payload driver failed: ' + r.stdout[-1500:])
    viols, out = tlc_log('PayloadAlgebra', log, wd, 'payload')
    rows = [json.loads(l) for l in open(log)]
    kf = vlib.known_findings()
    opened = [e for e in kf['open'] if 'C19' in e['properties']]
    new, known = [], {}
    for v in viols:
        parts = [p.strip().strip('"') for p in v[2].split(',')]
        key = (v[1], parts[0], parts[1])          # (kind, obj, field)
        hit = [e for e in opened if any(tuple(c) == key for c in e.get('cases', []))]
        if hit:
            known.setdefault(hit[0]['id'], []).append(key)
        else:
            new.append(key + (parts[2],))
    for kid, l in known.items():
        e = [x for x in opened if x['id'] == kid][0]
        print('KNOWN-FINDING: property=C19 %s: %s (%d rows)' % (kid, e['what'][:150], len(l)))
    ev['level'] = 'exploration'
    ev['coverage'] = {
        'evaluations': len(rows), 'distinct_nontrivial': len({(r_['k'], r_['obj'], r_['field'], r_['n']) for r_ in rows}),
        'rule': 'one row per case computed with the real internal/consensus, internal/crypto, internal/merkle code: single-field mutations of every payload kind and of blocks '
                '(hash must / must not change), encode-decode round trips, every truncation and one bit flip per byte of valid encodings plus random bytes (no panic), proposal and '
                'responses rebuilt from a recovery message from each sender position (direct and after the wire), signature verification under same/other key and data, Merkle roots '
                'under leaf replacement / swap / drop / duplication for 1..5 leaves; rows are distinct by (kind, object, field, n); TLC checks them against spec/PayloadAlgebra.tla',
        'samples': rows[:4], 'known_finding_rows': {k: len(v) for k, v in known.items()},
    }
    ev['assumptions'] = ['value-level clauses only: decoder robustness is sampled (structured corruptions), cryptographic soundness of SHA-256/ECDSA is not addressed']
    if new:
        rp = os.path.join(vlib.VERIF, 'replays', 'C19-rows.ndjson'); os.makedirs(os.path.dirname(rp), exist_ok=True)
        with open(rp, 'w') as o:
            for r_ in rows:
                if any((r_['k'], r_['obj'], r_['field']) == n[:3] for n in new):
                    o.write(json.dumps(r_) + '\n')
        print('VIOLATION property=C19 replay=%s' % rp)
        print('  %d rows contradict spec/PayloadAlgebra.tla, e.g. %s' % (len(new), new[0]))
        ev['violations'] = len(new)
        return 1
    return 0
