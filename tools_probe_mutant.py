#!/usr/bin/env python3
"""Which property formulas fail on a seeded change in the shared GENERAL plan (one record + validate run evaluates the formulas
of every property)? usage: tools_probe_mutant.py <scratch repo> name...   (prints property/formula counts that are new w.r.t. the tags of known findings)"""
import json, os, sys, subprocess, collections, shutil, importlib.machinery, importlib.util
HERE = os.path.dirname(os.path.abspath(__file__))
repo = os.path.abspath(sys.argv[1]); names = sys.argv[2:]
os.environ['VERIF_REPO'] = repo
sys.path.insert(0, HERE)
import vlib
ld = importlib.machinery.SourceFileLoader('chk', os.path.join(HERE, 'check'))
chk = importlib.util.module_from_spec(importlib.util.spec_from_loader('chk', ld)); ld.exec_module(chk)
def sh(c):
    return subprocess.run(c, shell=True, stdout=subprocess.PIPE, stderr=subprocess.STDOUT, text=True)
for n in names:
    d = os.path.join(HERE, 'seeded', n)
    sh('cd %s && git checkout -q -- . && git clean -fdq' % repo)
    r = sh('cd %s && git apply %s/patch.diff' % (repo, d))
    if r.returncode:
        print(n, 'PATCH FAILED'); continue
    wd = vlib.workdir('probe-' + n)
    try:
        vh = vlib.build_harness(wd)
        res = chk.shared_runs(chk.GENERAL['quick'], 'quick', 1, wd, vh, use_cache=False)
        cnt = collections.Counter((v['prop'], v['formula']) for v in res['viols'] if not v['tag'])
        print(n, 'diverged=%d/%d' % (res['conf']['diverged'], res['conf']['checked']), dict(cnt), flush=True)
    except Exception as e:
        print(n, 'ERROR', str(e)[-400:])
    finally:
        shutil.rmtree(wd, ignore_errors=True)
        sh('cd %s && git checkout -q -- . && git clean -fdq' % repo)
