"""C20: TLC runs the TLA+ models shipped in /repo/formal-models (working tree) against their stated
invariants and against independent restatements of them, for the fault sets their ASSUME allows."""
import os, re, shutil, subprocess, time, json
from concurrent.futures import ThreadPoolExecutor
import vlib
from vlib import Infra

MODELS = {
    'dbft':          dict(dir='dbft', mod='dbft', invs=['TypeOK', 'InvTwoBlocksAccepted', 'InvFaultNodesCount'], cons='MaxViewConstraint', extra=''),
    'antiMEV':       dict(dir='dbft_antiMEV', mod='dbft', invs=['TypeOK', 'InvTwoBlocksAccepted', 'InvFaultNodesCount'], cons='MaxViewConstraint', extra=''),
    'threeStagedCV': dict(dir='dbft2.1_threeStagedCV', mod='dbftCV3', invs=['TypeOK', 'InvTwoBlocksAccepted', 'InvFaultNodesCount'], cons='MaxViewConstraint', extra=''),
    'centralizedCV': dict(dir='dbft2.1_centralizedCV', mod='dbftCentralizedCV', invs=['TypeOK', 'InvTwoBlocksAcceptedAdvanced', 'InvFaultNodesCount'], cons='MaxViewConstraint', extra=''),
    'multipool':     dict(dir='dbftMultipool', mod='dbftMultipool', invs=['TypeOK', 'InvTwoBlocksAccepted', 'InvDeadlock', 'InvFaultNodesCount'], cons='ModelConstraint', extra='MaxUndeliveredMessages = 6'),
}
FAULTS = {'good': ('{}', '{}'), 'f0': ('{0}', '{}'), 'f1': ('{1}', '{}'), 'f2': ('{2}', '{}'), 'f3': ('{3}', '{}'),
          'd0': ('{}', '{0}'), 'd1': ('{}', '{1}'), 'd3': ('{}', '{3}'), 'f0d0': ('{0}', '{0}')}
# (model, fault config, time cap seconds, workers); a capped run that does not finish is reported as bounded, not exhaustive
PLAN = {
    'quick': [('dbft', f, 600, 4) for f in ('good', 'f0', 'f1', 'd0', 'f0d0')] +
             [('antiMEV', f, 600, 4) for f in ('good', 'f0', 'd0')] +
             [('threeStagedCV', 'good', 900, 8)],
    'thorough': [('dbft', f, 1200, 4) for f in FAULTS] + [('antiMEV', f, 1200, 4) for f in FAULTS] +
                [('threeStagedCV', f, 1800, 8) for f in ('good', 'd0', 'd1', 'f0', 'f1', 'f2')] +
                [('centralizedCV', f, 1800, 8) for f in ('good', 'd0', 'f0')] +
                [('multipool', f, 1800, 8) for f in ('good', 'd0', 'f0')],
}
# independent restatement of the invariants the property names (guards against a weakened Inv* definition)
OWN = '''
VerifFork == \\A a, b \\in RM : (rmState[a].type = "blockAccepted" /\\ rmState[b].type = "blockAccepted") => rmState[a].view = rmState[b].view
VerifFaults == Cardinality({r \\in RM : rmState[r].type \\in {"bad", "dead"}}) <= (Cardinality(RM) - 1) \\div 3
VerifTypes == /\\ DOMAIN rmState = RM
              /\\ \\A r \\in RM : rmState[r].view \\in Nat /\\ rmState[r].type \\in STRING
              /\\ \\A m \\in msgs : m.rm \\in RM /\\ m.view \\in Nat /\\ m.type \\in STRING
'''

def run_one(item, wd):
    name, fault, cap, workers = item
    m = MODELS[name]
    sd = os.path.join(wd, '%s-%s' % (name, fault)); os.makedirs(sd)
    src = os.path.join(vlib.REPO, 'formal-models', m['dir'], m['mod'] + '.tla')
    if not os.path.exists(src):
        raise Infra('shipped model missing: ' + src)
    shutil.copy(src, sd)
    open(os.path.join(sd, 'MCV.tla'), 'w').write('---- MODULE MCV ----\nEXTENDS %s\n%s\n====\n' % (m['mod'], OWN))
    f, d = FAULTS[fault]
    own = ['VerifFork', 'VerifFaults', 'VerifTypes'] if name != 'centralizedCV' else ['VerifFaults', 'VerifTypes']
    open(os.path.join(sd, 'MCV.cfg'), 'w').write(
        'SPECIFICATION Safety\nCONSTANTS\n  RM = {0,1,2,3}\n  RMFault = %s\n  RMDead = %s\n  MaxView = 1\n  %s\nCONSTRAINT %s\nINVARIANTS %s\nCHECK_DEADLOCK FALSE\n'
        % (f, d, m['extra'], m['cons'], ' '.join(m['invs'] + own)))
    cmd = ['java', '-Xmx12g', '-Xss64m', '-XX:+UseParallelGC', '-cp', vlib.JAVA_CP, 'tlc2.TLC', '-workers', str(workers),
           '-metadir', os.path.join(sd, 'md'), '-config', 'MCV.cfg', 'MCV.tla']
    t0 = time.time()
    try:
        r = subprocess.run(cmd, cwd=sd, stdout=subprocess.PIPE, stderr=subprocess.STDOUT, text=True, timeout=cap)
        out, timed_out = r.stdout, False
    except subprocess.TimeoutExpired as e:
        out, timed_out = (e.stdout.decode() if isinstance(e.stdout, bytes) else (e.stdout or '')), True
    res = dict(model=name, fault=fault, module=m['mod'], wall_s=round(time.time() - t0, 1), states=0, distinct=0, completed=False,
               violated=None, timed_out=timed_out)
    mm = re.findall(r'(\d[\d,]*) states generated.*?(\d[\d,]*) distinct states found', out)
    if mm:
        res['states'], res['distinct'] = int(mm[-1][0].replace(',', '')), int(mm[-1][1].replace(',', ''))
    v = re.search(r'Invariant (\w+) is violated', out)
    if v:
        res['violated'] = v.group(1)
        tr = [ln for ln in out.splitlines() if re.match(r'^State \d+: <', ln)]
        res['trace_actions'] = [re.sub(r' line .*', '', t) for t in tr]
        tf = os.path.join(vlib.VERIF, 'replays', 'C20-%s-%s.txt' % (name, fault))
        os.makedirs(os.path.dirname(tf), exist_ok=True)
        open(tf, 'w').write('# tlc counterexample: model %s, RMFault=%s RMDead=%s\n# re-run: ./check C20 --replay %s\n%s' % (name, f, d, tf, out[-60000:]))
        res['replay'] = tf
    elif 'Model checking completed. No error has been found.' in out:
        res['completed'] = True
    elif not timed_out:
        shutil.rmtree(sd, ignore_errors=True)
        raise Infra('TLC failed on %s/%s:\n%s' % (name, fault, out[-2500:]))
    shutil.rmtree(sd, ignore_errors=True)
    return res

def check(tier, seed, wd, ev, only=None):
    plan = PLAN[tier] if only is None else only
    par = max(1, vlib.NCPU // 4)
    with ThreadPoolExecutor(max_workers=par) as ex:
        results = list(ex.map(lambda it: run_one(it, wd), plan))
    kf = vlib.known_findings()
    opened = [e for e in kf['open'] if 'C20' in e['properties']]
    rc = 0
    for r in results:
        if r['violated']:
            hit = [e for e in opened if e.get('model') == r['model'] and r['violated'] in e.get('invariants', []) and
                   (r['fault'].startswith('f') == e.get('needs_faulty_node', False))]
            if hit:
                print('KNOWN-FINDING: property=C20 %s: shipped model %s violates %s with fault set %s (%d-state counterexample)' % (
                    hit[0]['id'], r['module'], r['violated'], r['fault'], len(r.get('trace_actions', []))))
                r['known_finding'] = hit[0]['id']
            else:
                print('VIOLATION property=C20 replay=%s' % r['replay'])
                print('  shipped model %s (%s): invariant %s violated, fault set %s' % (r['module'], r['model'], r['violated'], r['fault']))
                rc = 1
    ev['level'] = 'model_checking'
    ev['violations'] = sum(1 for r in results if r['violated'] and 'known_finding' not in r)
    ev['coverage'] = {
        'states': sum(r['distinct'] for r in results) or 1, 'transitions': sum(r['states'] for r in results) or 1,
        'traces_validated_against_impl': 0,
        'samples': [{k: r[k] for k in ('model', 'fault', 'distinct', 'states', 'completed', 'violated', 'wall_s')} for r in results],
        'runs': results,
        'exhaustive': all(r['completed'] or r['violated'] for r in results),
        'constants': 'RM = {0,1,2,3}, MaxView = 1 (+ MaxUndeliveredMessages = 6 for the multipool model), shipped state constraint, SPECIFICATION Safety',
        'explanation': 'the artefact under test is the specification itself: traces_validated_against_impl is 0 by nature',
    }
    ev['assumptions'] = ['invariants checked: the shipped TypeOK / InvTwoBlocksAccepted(Advanced) / InvFaultNodesCount (and InvDeadlock for multipool) plus independent restatements VerifFork / VerifFaults / VerifTypes defined by the check in an extending module',
                         'runs that hit their time cap are reported completed=false (bounded breadth-first search, no violation found so far)']
    return rc
