#!/bin/bash
# run every registered quick check on the unchanged tree for the given seeds; print rc per check
seeds=${@:-1}
ids=$(python3 -c "import json;print(' '.join(c['property_id'] for c in json.load(open('/verif/MANIFEST.json'))['checks']))")
for s in $seeds; do for p in $ids; do
  t0=$(date +%s); VERIF_SEED=$s ./check $p > /tmp/self.$$.$p.$s 2>&1; rc=$?; t1=$(date +%s)
  echo "seed=$s $p rc=$rc $((t1-t0))s $(grep -c '^VIOLATION' /tmp/self.$$.$p.$s) viol $(grep -c '^KNOWN-FINDING' /tmp/self.$$.$p.$s) kf"
done; done
