#!/usr/bin/env python3
"""Record the GENERAL plan for the given seeds and report, per trace file, conformance divergences and formula failures.
usage: tools_conf_probe.py [--plan C09] seed...   (diverging traces are copied to /tmp/div-*)"""
import sys, os, json, shutil, importlib.machinery, importlib.util
sys.path.insert(0, os.path.dirname(os.path.abspath(__file__)))
import vlib
loader = importlib.machinery.SourceFileLoader('chk', os.path.join(vlib.VERIF, 'check'))
spec = importlib.util.spec_from_loader('chk', loader); chk = importlib.util.module_from_spec(spec); loader.exec_module(chk)
args = sys.argv[1:]
pid = 'C02'
if args and args[0] == '--plan':
    pid = args[1]; args = args[2:]
for seed in [int(a) for a in args] or [1]:
    wd = vlib.workdir('probe%d' % seed)
    try:
        vh = vlib.build_harness(wd)
        td = os.path.join(wd, 'traces'); os.makedirs(td)
        traces, nruns, cov = chk.record_plan(chk.plan_for(pid, 'quick'), seed, td, wd, vh)
        tot = 0
        for d, x, f in traces:
            co = []
            v, l, s = vlib.tlc_trace(f, wd, conf_out=co)
            fails = sorted({(y['prop'], y['formula'], y['tag']) for y in v})
            if (co and co[0]['diverged']) or [y for y in fails if not y[2]]:
                print('seed', seed, d, [str(y) for y in x][:2], os.path.basename(f), co[0]['diverged'] if co else None, co[0]['by_call'] if co else None, fails, flush=True)
                shutil.copy(f, '/tmp/div-s%d-%s' % (seed, os.path.basename(f)))
                if d == 'script':
                    shutil.copy(x[1], '/tmp/div-s%d-%s.beh' % (seed, os.path.basename(f)))
                tot += co[0]['diverged'] if co else 0
        print('seed', seed, 'traces', len(traces), 'runs', nruns, 'diverged', tot, flush=True)
    finally:
        shutil.rmtree(wd, ignore_errors=True)
