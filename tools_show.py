#!/usr/bin/env python3
"""show trace lines: tools_show.py file run i [context]"""
import json,sys
f,run,i=sys.argv[1],int(sys.argv[2]),int(sys.argv[3])
ctx=int(sys.argv[4]) if len(sys.argv)>4 else 0
node=None
cur=None
def slot(s):
    if s['k']=='none': return '-'
    if s['k'] in('req','resp'): return f"{s['k']}v{s['v']}:{s['ph']['nonce'][-4:]}"
    if s['k'] in('cm','pc'): return f"{s['k']}v{s['v']}:{s['b']['nonce'][-4:]}{'' if s['valid'] else '!'}{'e' if s['early'] else ''}"
    if s['k']=='cv': return f"cv{s['v']}>{s['nv']}"
    if s['k']=='hv': return f"{s['h']}.{s['v']}"
    return str(s)
def st(s):
    if not s.get('started'): return 'notstarted'
    return (f"h{s['h']} v{s['v']} n{s['n']} me{s['me']} pri{s['primary']} w{int(s['watch'])} amev{int(s['amev'])} done{int(s['blockDone'])} pre{int(s['preDone'])} txs={s['txs']} have={s['have']} miss={s['missing']} nonce={s['nonce'][-4:]}\n"
      f"      prep={[slot(x) for x in s['prep']]} cm={[slot(x) for x in s['cm']]} pc={[slot(x) for x in s['pc']]}\n      cv={[slot(x) for x in s['cv']]} lastcv={[slot(x) for x in s['lastcv']]} seen={[slot(x) for x in s['seen']]} timer={s['timer']} cache={[(c['h'],len(c['prepare']),len(c['chViews']),len(c['preCommit']),len(c['commit'])) for c in s['cache']]} verOk={s['verifiedOk']}")
def pay(m):
    d={k:v for k,v in m.items() if k not in('prep','cvs','pcs','cms')}
    for k in('prep','cvs','pcs','cms'):
        if k in m: d[k]=[ (x['t'][:7],x['from'],x['v']) for x in m[k]]
    return d
lines=[]
for ln in open(f):
    d=json.loads(ln)
    if d['call']=='RunStart':
        cur=d['run']
        if cur==run: print('RUN',json.dumps(d))
        continue
    if cur==run: lines.append(d)
tgt=[d for d in lines if d['i']==i][0]
node=tgt['n']
sel=[d for d in lines if d['n']==node and i-ctx*1000<=d['i']<=i]
sel=sel[-(ctx+1):]
for d in sel:
    print(f"--- i={d['i']} n={d['n']} now={d['now']} {d['call']} arg={pay(d['arg']) if 't' in d['arg'] else d['arg']} panic={d['panic']!r} ledger=h{d['ledger']['height']}")
    for c in d['cb']:
        x={k:v for k,v in c.items() if k not in('at','m')}
        if 'm' in c: x['m']=pay(c['m'])
        print('    cb',x)
        if 'at' in c and '-at' in sys.argv: print('      at',st(c['at']))
    print('   post',st(d['post']))
