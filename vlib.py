"""Shared machinery of the /verif checks: build the harness against the current
/repo tree, record real runs, validate them with TLC against spec/DbftTrace.tla,
reproduce reported formula failures, classify against known findings, write
evidence."""
import hashlib, json, os, re, shutil, subprocess, sys, time, glob
from concurrent.futures import ThreadPoolExecutor

VERIF = os.path.dirname(os.path.abspath(__file__))
REPO = os.environ.get('VERIF_REPO', '/repo')   # VERIF_REPO: run against a scratch worktree (mutant testing only)
WORK = os.path.join(VERIF, '.work')
GOENV = dict(os.environ, GOFLAGS='-mod=mod', GOPROXY='off', GOSUMDB='off', GOTOOLCHAIN='local',
             GOCACHE=os.path.join(VERIF, '.cache', 'gocache'))
GO = 'go1.26.8'
JAVA_CP = '/opt/veriftools/tla/tla2tools.jar:/opt/veriftools/tla/CommunityModules-deps.jar'
NCPU = os.cpu_count() or 4

class Infra(Exception):
    pass

def sh(cmd, **kw):
    return subprocess.run(cmd, stdout=subprocess.PIPE, stderr=subprocess.STDOUT, text=True, **kw)

def tree_hash(root, exts):
    h = hashlib.sha256()
    for dp, dn, fn in sorted(os.walk(root)):
        dn[:] = sorted(d for d in dn if d not in ('.git', '.work', '.cache'))
        for f in sorted(fn):
            if f.endswith(exts):
                p = os.path.join(dp, f)
                h.update(p.encode()); h.update(open(p, 'rb').read())
    return h.hexdigest()[:16]

def sha(txt):
    return hashlib.sha256(txt.encode()).hexdigest()[:24]

def repo_hash():
    return tree_hash(REPO, ('.go', '.mod', '.sum'))

def verif_hash():
    h = hashlib.sha256()
    for d, exts in (('harness', ('.go', '.mod')), ('spec', ('.tla', '.cfg'))):
        h.update(tree_hash(os.path.join(VERIF, d), exts).encode())
    for f in sorted(glob.glob(os.path.join(VERIF, '*.py'))) + [os.path.join(VERIF, 'check'), os.path.join(VERIF, 'known_findings.json')]:
        h.update(open(f, 'rb').read())
    return h.hexdigest()[:16]

def workdir(tag):
    d = os.path.join(WORK, '%s-%d-%d' % (tag, os.getpid(), int(time.time() * 1000) % 100000))
    os.makedirs(d, exist_ok=True)
    return d

def build_harness(wd):
    """Build /verif/harness against the current /repo working tree, tag verif."""
    src = os.path.join(wd, 'hsrc')
    shutil.copytree(os.path.join(VERIF, 'harness'), src)
    shutil.copy(os.path.join(REPO, 'go.sum'), os.path.join(src, 'go.sum'))
    if REPO != '/repo':
        gm = os.path.join(src, 'go.mod')
        txt = open(gm).read().replace('=> /repo', '=> ' + REPO)
        open(gm, 'w').write(txt)
    out = os.path.join(wd, 'vh')
    os.makedirs(GOENV['GOCACHE'], exist_ok=True)
    r = sh([GO, 'build', '-tags', 'verif', '-o', out, '.'], cwd=src, env=GOENV)
    if r.returncode != 0:
        raise Infra('harness build failed against the current /repo tree:\n' + r.stdout[-3000:])
    return out

def record(vh, driver, seed, runs, out_dir, extra=(), chunks=None, first=0):
    """Run the driver for `runs` runs split over chunks; returns trace files."""
    chunks = chunks or min(NCPU, max(1, runs))
    per = (runs + chunks - 1) // chunks
    jobs = []
    for c in range(chunks):
        a = first + c * per
        b = min(first + runs, a + per)
        if a >= b:
            break
        f = os.path.join(out_dir, '%s-%d-%d.ndjson' % (driver, seed, a))
        jobs.append((f, [vh, driver, '-seed', str(seed), '-from', str(a), '-runs', str(b - a), '-out', f] + list(extra)))
    def run(j):
        r = sh(j[1], timeout=1800)
        if r.returncode != 0:
            raise Infra('driver failed: %s\n%s' % (' '.join(j[1]), r.stdout[-2000:]))
        return j[0]
    with ThreadPoolExecutor(max_workers=NCPU) as ex:
        return list(ex.map(run, jobs))

VIOL_RE = re.compile(r'^<<"VIOL", "(C\d\d)", "(\w+)", "([^"]*)", (-?\d+), (-?\d+), (-?\d+), "(\w+)">>')
SUM_RE = re.compile(r'^<<"TRACE-SUMMARY", (\d+), (\d+)>>')
CONF_RE = re.compile(r'^<<"CONFORMANCE", \[checked \|-> (\d+), diverged \|-> (\d+), skipped \|-> (\d+)\]>>')
DIV_RE = re.compile(r'^<<"DIVERGE", (-?\d+), (\d+), (-?\d+), "(\w+)", "(\w*)">>')

def tlc_trace(trace, wd, spec='DbftTrace', timeout=3600, heap='3g', conform=True, conf_out=None):
    """Validate one ndjson trace file with TLC. Returns (viols, lines, states)."""
    md = os.path.join(wd, 'md-' + os.path.basename(trace))
    sd = os.path.join(wd, 'spec-' + os.path.basename(trace))
    os.makedirs(sd, exist_ok=True)
    for f in glob.glob(os.path.join(VERIF, 'spec', '*.tla')) + glob.glob(os.path.join(VERIF, 'spec', spec + '.cfg')):
        shutil.copy(f, sd)
    env = dict(os.environ, VERIF_TRACE=trace)
    if conform:
        env['VERIF_CONFORM'] = '1'
    else:
        env.pop('VERIF_CONFORM', None)
    cmd = ['java', '-Xmx' + heap, '-Xss64m', '-XX:+UseParallelGC', '-cp', JAVA_CP, 'tlc2.TLC', '-workers', '1',
           '-metadir', md, '-config', spec + '.cfg', spec + '.tla']
    try:
        r = sh(cmd, cwd=sd, env=env, timeout=timeout)
    except subprocess.TimeoutExpired:
        raise Infra('TLC timed out on ' + trace)
    viols, lines, states = [], None, None
    conf = {'checked': 0, 'diverged': 0, 'skipped': 0, 'by_call': {}}
    for ln in r.stdout.splitlines():
        m = CONF_RE.match(ln)
        if m:
            conf.update(checked=int(m.group(1)), diverged=int(m.group(2)), skipped=int(m.group(3)))
        m = DIV_RE.match(ln)
        if m:
            k = m.group(4) + (':' + m.group(5) if m.group(5) else '')
            conf['by_call'][k] = conf['by_call'].get(k, 0) + 1
        m = VIOL_RE.match(ln)
        if m:
            viols.append(dict(prop=m.group(1), formula=m.group(2), tag=m.group(3), run=int(m.group(4)),
                              line=int(m.group(5)), node=int(m.group(6)), call=m.group(7), file=trace))
        m = SUM_RE.match(ln)
        if m:
            lines, states = int(m.group(1)), int(m.group(2))
    ok = 'Model checking completed. No error has been found.' in r.stdout
    shutil.rmtree(md, ignore_errors=True); shutil.rmtree(sd, ignore_errors=True)
    if not ok or lines is None or states != lines + 1:
        raise Infra('TLC did not accept/consume the trace %s:\n%s' % (trace, r.stdout[-3000:]))
    if conf_out is not None:
        conf_out.append(conf)
    return viols, lines, states

def validate(traces, wd, spec='DbftTrace', conform=True):
    confs = []
    with ThreadPoolExecutor(max_workers=max(1, NCPU // 2)) as ex:
        res = list(ex.map(lambda t: tlc_trace(t, wd, spec, conform=conform, conf_out=confs), traces))
    viols = [v for r in res for v in r[0]]
    conf = {'checked': sum(c['checked'] for c in confs), 'diverged': sum(c['diverged'] for c in confs),
            'skipped': sum(c['skipped'] for c in confs), 'diverged_by_call': {}}
    for c in confs:
        for k, v in c['by_call'].items():
            conf['diverged_by_call'][k] = conf['diverged_by_call'].get(k, 0) + v
    return viols, sum(r[1] for r in res), sum(r[2] for r in res), conf

def known_findings():
    return json.load(open(os.path.join(VERIF, 'known_findings.json')))

def extract_run(trace, run):
    """Lines of one run from a trace file."""
    out, on = [], False
    for ln in open(trace):
        if ln.startswith('{"call":"RunStart"'):
            on = json.loads(ln)['run'] == run
        if on:
            out.append(ln)
    return out

def sample_lines(trace, k=2):
    s = []
    for ln in open(trace):
        d = json.loads(ln)
        if d.get('call') == 'RunStart':
            s.append({'RunStart': d['params'], 'run': d['run']})
        elif d.get('cb') and any(c['k'] in ('ProcessBlock', 'Broadcast') for c in d['cb']):
            s.append({'i': d['i'], 'node': d['n'], 'call': d['call'], 'arg': d['arg'],
                      'callbacks': [c['k'] + (':' + c['m']['t'] if 'm' in c else '') for c in d['cb']],
                      'post': {x: d['post'][x] for x in ('h', 'v', 'n', 'me', 'blockDone') if x in d['post']}})
        if len(s) >= k + 1:
            break
    return s

def write_evidence(pid, ev):
    # runs against a scratch copy of the repository (seeded-change testing) must not overwrite the evidence of /repo itself
    d = os.path.join(VERIF, 'evidence') if REPO == '/repo' else os.path.join(VERIF, '.cache', 'evidence-scratch')
    os.makedirs(d, exist_ok=True)
    p = os.path.join(d, pid + '.json')
    json.dump(ev, open(p, 'w'), indent=1, sort_keys=True)
    return p


def record_mbt(vh, seed, chunks, traces_per_chunk, depth, out_dir, wd, keep_every=8):
    """spec -> code: `tlc -simulate` on spec/MC_Node.tla prints behaviours (event sequences chosen by the specification's
    environment); the harness' script driver executes them on a real node. Returns [(trace_file, behaviours_file)]."""
    import mc, random
    rnd = random.Random(seed)
    fams = [dict(me=1, family=('core', 'junk', 'recovery', 'tx', 'app', 'equiv')),
            dict(me=2, family=('core', 'junk', 'recovery', 'tx', 'app')),
            dict(me=1, amev=True, family=('core', 'junk', 'recovery', 'tx', 'app')),
            dict(me=3, amev=True, family=('core', 'junk', 'tx', 'app', 'equiv')),
            dict(me=2, dyn=True, family=('core', 'tx', 'recovery')),
            dict(me=1, dyn=True, amev=True, family=('core', 'tx', 'junk')),
            dict(me=2, watch=True, family=('core', 'junk', 'recovery')),
            dict(me=1, n=7, family=('core', 'junk', 'tx'))]
    def one(c):
        fam = fams[(seed + c) % len(fams)]
        item = mc.node_cfg('sim%d' % c, invs=[], emit=True, emitlen=depth, maxview=1 + (c % 2), **fam)
        r = mc.run_tlc(item, wd, workers=1, cap=900, simulate=dict(num=traces_per_chunk, depth=depth, seed=seed * 1000 + c))
        bf = os.path.join(out_dir, 'behaviours-%d-%d.ndjson' % (seed, c))
        n = 0
        with open(bf, 'w') as o:
            k = 0
            for ln in r['stdout'].splitlines():
                if ln.startswith('<<"BEHAVIOUR", "'):
                    k += 1
                    if k % keep_every:
                        continue
                    o.write(json.loads(ln.strip()[len('<<"BEHAVIOUR", '):-2]) + '\n'); n += 1
        if n == 0:
            return None
        tf = os.path.join(out_dir, 'script-%d-%d.ndjson' % (seed, c))
        rr = sh([vh, 'script', '-in', bf, '-runs', '0', '-out', tf], timeout=1800)
        if rr.returncode != 0:
            raise Infra('script driver failed: ' + rr.stdout[-1500:])
        return tf, bf, n
    with ThreadPoolExecutor(max_workers=NCPU) as ex:
        res = [r for r in ex.map(one, range(chunks)) if r]
    if not res:
        raise Infra('TLC simulation produced no behaviour at all')
    return res


def record_cover(vh, names, out_dir, wd, pair=0):
    """spec -> code, exhaustive: the state cover of small MC_Node configurations (every state TLC reaches breadth-first, each
    with the schedule that reached it) is executed on a real node by the script driver, in chunks."""
    import mc, gzip
    items = {i['name']: i for k in mc.NODE_FAMILIES for i in mc.NODE_FAMILIES[k]}
    items.update({i['name']: i for i in mc.SYNC_FAMILIES + mc.DYN_FAMILIES + mc.LIVE_FAMILIES + mc.TX_FAMILIES})
    out = []
    for nm in names:
        nm, _, cap = nm.partition(':')      # "name:K" = the schedule of one state in K
        gz, meta = mc.cover_file(items[nm], wd, mod=int(cap) if cap else 1)
        bf = os.path.join(out_dir, 'cover-%s.ndjson' % nm)
        with gzip.open(gz, 'rb') as i, open(bf, 'wb') as o:
            shutil.copyfileobj(i, o)
        n = sum(1 for _ in open(bf))
        meta = dict(meta, name=nm, behaviours=n)
        per = max(50, (n + NCPU - 1) // NCPU)
        jobs = []
        for a in range(0, n, per):
            tf = os.path.join(out_dir, 'script-cover%s-%s-%d.ndjson' % ('pair' if pair else '', nm, a))
            jobs.append((tf, [vh, 'script', '-in', bf, '-from', str(a), '-runs', str(min(per, n - a)), '-out', tf] + (['-pair', str(pair)] if pair else []), min(per, n - a)))
        def run(j):
            r = sh(j[1], timeout=1800)
            if r.returncode != 0:
                raise Infra('script driver failed: %s' % r.stdout[-1500:])
            return j[0], bf, j[2], meta
        with ThreadPoolExecutor(max_workers=NCPU) as ex:
            out += list(ex.map(run, jobs))
    return out


def record_attacks(vh, out_dir):
    """spec -> code, adversarial: the attack schedules TLC found on weakened variants of the specification
    (generated/attacks.json, see tools_attacks.py) are executed on the real code."""
    p = os.path.join(VERIF, 'generated', 'attacks.json')
    atk = json.load(open(p)) if os.path.exists(p) else []
    # hand-written regression schedules of repaired findings (the failing input of each fix: commit, kept so that the defect is
    # reported again if it ever returns)
    reg = []
    for f in sorted(glob.glob(os.path.join(VERIF, 'regressions', '*.json'))):
        reg += [dict(weaken='regression ' + r['id'], property=r['property'], invariant=r['id'], schedule=r['schedule']) for r in json.load(open(f))]
    atk = atk + reg
    if not atk:
        return [], {'attacks': 0, 'note': 'generated/attacks.json missing'}
    bf = os.path.join(out_dir, 'attacks.ndjson')
    with open(bf, 'w') as o:
        for a in atk:
            o.write(json.dumps(a['schedule']) + '\n')
    tf = os.path.join(out_dir, 'script-attacks.ndjson')
    r = sh([vh, 'script', '-in', bf, '-runs', '0', '-out', tf], timeout=1800)
    if r.returncode != 0:
        raise Infra('script driver failed on the attack schedules: %s' % r.stdout[-1500:])
    meta = {'attacks': len(atk), 'regression_schedules': len(reg), 'weakenings': sorted({a['weaken'] for a in atk}),
            'targets': sorted({'%s/%s' % (a['property'], a['invariant']) for a in atk})}
    return [(tf, bf, len(atk))], meta


def record_live_sim(vh, seed, out_dir, wd, chunks=6, num=40):
    """spec -> code for validator counts too large to enumerate: random simulation of spec/MC_Live.tla (N = 7, two silent
    primaries, a harmless restart, a partition) prints complete synchronous behaviours; the script driver runs them on real clusters."""
    import mc
    cfgs = [mc.live_cfg('sim-n7-silent2-restart', n=7, silent=(2, 1), restart=(3,), maxview=4),
            mc.live_cfg('sim-n7-silent2', n=7, silent=(2, 1), maxview=4),
            mc.live_cfg('sim-n7-silent1-cut', n=7, silent=(2,), cutsets=((3,), (1,)), heal=1, maxview=4, anytime=True),
            mc.live_cfg('sim-n7-silent2-restart-amev', n=7, silent=(2, 1), restart=(4,), maxview=4, amev=True),
            mc.live_cfg('sim-n5-silent1-restart', n=5, silent=(2,), restart=(0,), maxview=4),
            mc.live_cfg('sim-n4-silent1-restart-cut', n=4, silent=(2,), restart=(3,), cutsets=((1,),), heal=1, maxview=4, anytime=True)]
    def one(c):
        it = dict(cfgs[(seed + c) % len(cfgs)])
        it['cfg'] = it['cfg'].replace('Emit = FALSE', 'Emit = TRUE').replace('PROPERTY Termination\n', '').replace('INVARIANTS ', 'INVARIANTS EmitDone ')
        r = mc.run_tlc(it, wd, workers=1, cap=600, simulate=dict(num=num, depth=600, seed=seed * 100 + c))
        seen, keep = set(), []
        for ln in r['stdout'].splitlines():
            if ln.startswith('<<"BEHAVIOUR", "'):
                try:
                    evs = json.loads(json.loads(ln.strip()[len('<<"BEHAVIOUR", '):-2]))
                except Exception:
                    continue
                k = json.dumps(evs[:12])      # one behaviour per simulated run (later prints of the same run extend it)
                if keep and seen and json.dumps(keep[-1][:len(keep[-1])]) == json.dumps(evs[:len(keep[-1])]):
                    keep[-1] = evs
                else:
                    keep.append(evs)
        if not keep:
            return None
        bf = os.path.join(out_dir, 'live-sim-%d-%d.ndjson' % (seed, c))
        with open(bf, 'w') as o:
            for evs in keep:
                o.write(json.dumps(evs) + '\n')
        tf = os.path.join(out_dir, 'script-live-sim-%d-%d.ndjson' % (seed, c))
        rr = sh([vh, 'script', '-in', bf, '-runs', '0', '-out', tf], timeout=1800)
        if rr.returncode != 0:
            raise Infra('script driver failed: ' + rr.stdout[-1500:])
        return tf, bf, len(keep)
    with ThreadPoolExecutor(max_workers=NCPU) as ex:
        return [r for r in ex.map(one, range(chunks)) if r]
