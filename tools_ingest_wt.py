#!/usr/bin/env python3
"""Confirm a seeded change left applied in a sub-agent's private worktree and file it under /verif/seeded/<name>/.
usage: tools_ingest_wt.py <worktree> <name> <property>   (the worktree holds the uncommitted source change, zz_demo_*_test.go, SEEDED.md)"""
import json, os, shutil, subprocess, sys, glob, re
wt, name, prop = sys.argv[1], sys.argv[2], sys.argv[3]
W = '/tmp/mw'
ENV = dict(os.environ, GOFLAGS='-mod=mod', GOPROXY='off')
def sh(c, cwd=W, timeout=900):
    r = subprocess.run(c, shell=True, cwd=cwd, env=ENV, stdout=subprocess.PIPE, stderr=subprocess.STDOUT, text=True, timeout=timeout)
    return r.returncode, r.stdout
demos = [f for f in subprocess.check_output('git ls-files --others --exclude-standard', shell=True, cwd=wt, text=True).split() if f.endswith('_test.go')]
assert len(demos) == 1, demos
demo = demos[0]
src = open(os.path.join(wt, demo)).read()
tname = re.search(r'func (TestDemo\w+)\(', src).group(1)
patch = subprocess.check_output('git diff', shell=True, cwd=wt, text=True)
assert patch.strip(), 'no source change'
open('/tmp/mw.patch', 'w').write(patch)
if not os.path.isdir(W):
    sh('git -C /repo worktree add -q --detach %s HEAD' % W, cwd='/')
sh('git checkout -q --detach $(git -C /repo rev-parse HEAD) && git checkout -- . && git clean -fdq')
res = {}
rc, out = sh('git apply /tmp/mw.patch')
res['applies'] = rc == 0
assert rc == 0, out
rc, out = sh('go build ./... && go test -vet=off -count=1 ./...')
res['suite_with_patch'] = 'pass' if rc == 0 else 'fail'
pkg = './' + os.path.dirname(demo) if os.path.dirname(demo) else '.'
cmd = "go test -vet=off -count=1 -run '^%s$' %s" % (tname, pkg)
shutil.copy(os.path.join(wt, demo), os.path.join(W, demo))
rc, out = sh(cmd); res['demo_with_patch'] = 'pass' if rc == 0 else 'fail'; tail = out[-700:]
sh('git checkout -- .')
rc, out = sh(cmd); res['demo_without_patch'] = 'pass' if rc == 0 else 'fail'
sh('git checkout -- . && git clean -fdq')
ok = res['suite_with_patch'] == 'pass' and res['demo_with_patch'] == 'fail' and res['demo_without_patch'] == 'pass'
print(name, json.dumps(res), 'CONFIRMED' if ok else 'REJECTED')
if not ok:
    print(tail); sys.exit(1)
dst = os.path.join('/verif/seeded', name); os.makedirs(dst, exist_ok=True)
shutil.copy('/tmp/mw.patch', os.path.join(dst, 'patch.diff'))
shutil.copy(os.path.join(wt, demo), dst)
notes = open(os.path.join(wt, 'SEEDED.md')).read() if os.path.exists(os.path.join(wt, 'SEEDED.md')) else ''
if notes:
    open(os.path.join(dst, 'SEEDED.md'), 'w').write(notes)
paras = [p.strip() for p in re.split(r'\n\s*\n', notes) if p.strip() and not p.strip().startswith('#')]
m = {'breaks_property': prop, 'summary': (paras[0] if paras else '')[:1500], 'needs_to_manifest': (paras[1] if len(paras) > 1 else '')[:1500],
     'files_changed': sorted(set(re.findall(r'^\+\+\+ b/(\S+)', patch, re.M))), 'demo_file': os.path.basename(demo), 'demo_dest': demo,
     'demo_cmd': 'cd <worktree> && GOFLAGS=-mod=mod GOPROXY=off ' + cmd,
     'origin': 'independent sub-agent given only the property text and a private worktree (round %s)' % name.split('-m')[-1],
     'confirmed_by_me': {'base_commit': subprocess.check_output('git -C /repo rev-parse --short HEAD', shell=True, text=True).strip(),
                         'what_i_ran': ['git apply patch.diff (scratch worktree of /repo HEAD)', 'go build ./... && go test -vet=off -count=1 ./...  => pass',
                                        'demo with patch => fail', 'demo without patch => pass'], 'results': res},
     'detected_by': {}}
json.dump(m, open(os.path.join(dst, 'meta.json'), 'w'), indent=1)
