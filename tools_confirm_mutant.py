#!/usr/bin/env python3
"""Confirm a seeded mutant in a scratch worktree of /repo HEAD and file it under /verif/seeded/<name>/.
usage: tools_confirm_mutant.py <src dir with patch.diff, meta.json, demo> <name>"""
import json, os, shutil, subprocess, sys, glob
src, name = sys.argv[1], sys.argv[2]
W = '/tmp/mw'
ENV = dict(os.environ, GOFLAGS='-mod=mod', GOPROXY='off')
def sh(c, cwd=W, timeout=900):
    r = subprocess.run(c, shell=True, cwd=cwd, env=ENV, stdout=subprocess.PIPE, stderr=subprocess.STDOUT, text=True, timeout=timeout)
    return r.returncode, r.stdout
if not os.path.isdir(W):
    sh('git -C /repo worktree add -q --detach %s HEAD' % W, cwd='/')
sh('git checkout -q --detach $(git -C /repo rev-parse HEAD) && git checkout -- . && git clean -fdq')
meta = json.load(open(os.path.join(src, 'meta.json')))
res = {}
rc, out = sh('git apply %s/patch.diff' % src)
if rc != 0:
    rc, out = sh('patch -p1 --fuzz=3 < %s/patch.diff' % src)
res['applies'] = rc == 0
if rc != 0:
    print('PATCH DOES NOT APPLY', out[-500:]); sys.exit(1)
rc, out = sh('git diff > /tmp/mw.patch; go build ./... && go test -vet=off -count=1 ./...')
res['suite_with_patch'] = 'pass' if rc == 0 else 'fail'
demo_dest = meta.get('demo_dest', 'script')
demo_file = os.path.join(src, meta['demo_file'])
demo_cmd = meta['demo_cmd'].replace('/tmp/mut/' + meta['property'], W).replace('<repo>', W)
def place():
    if demo_dest != 'script':
        d = os.path.join(W, demo_dest)
        if os.path.isdir(d) or demo_dest.endswith('/'):
            d = os.path.join(d, os.path.basename(demo_file))
        os.makedirs(os.path.dirname(d), exist_ok=True)
        shutil.copy(demo_file, d)
place()
if demo_dest == 'script':
    demo_cmd = 'REPO=%s bash %s %s' % (W, demo_file, W)
rc, out = sh(demo_cmd)
res['demo_with_patch'] = 'pass' if rc == 0 else 'fail'
res['demo_with_patch_tail'] = out[-600:]
sh('git checkout -- . && git clean -fdq')
place()
rc, out = sh(demo_cmd)
res['demo_without_patch'] = 'pass' if rc == 0 else 'fail'
sh('git checkout -- . && git clean -fdq')
ok = res['suite_with_patch'] == 'pass' and res['demo_with_patch'] == 'fail' and res['demo_without_patch'] == 'pass'
print(name, json.dumps({k: v for k, v in res.items() if not k.endswith('tail')}), 'CONFIRMED' if ok else 'REJECTED')
if ok:
    dst = os.path.join('/verif/seeded', name)
    os.makedirs(dst, exist_ok=True)
    shutil.copy('/tmp/mw.patch', os.path.join(dst, 'patch.diff'))
    shutil.copy(demo_file, dst)
    m = {'breaks_property': meta['property'], 'summary': meta['summary'], 'needs_to_manifest': meta['needs_to_manifest'],
         'files_changed': meta.get('files_changed'), 'demo_file': meta['demo_file'], 'demo_dest': demo_dest,
         'demo_cmd': meta['demo_cmd'].replace('/tmp/mut/' + meta['property'], '<worktree>'),
         'origin': 'independent sub-agent given only the property text and a private worktree',
         'confirmed_by_me': {'base_commit': subprocess.check_output('git -C /repo rev-parse --short HEAD', shell=True, text=True).strip(),
                             'what_i_ran': ['git apply patch.diff (scratch worktree of /repo HEAD)', 'go build ./... && go test -vet=off -count=1 ./...  => pass',
                                            'demo with patch => fail', 'demo without patch => pass'], 'results': {k: v for k, v in res.items() if not k.endswith('tail')}},
         'detected_by': {}}
    json.dump(m, open(os.path.join(dst, 'meta.json'), 'w'), indent=1)
else:
    print(res.get('demo_with_patch_tail'))
